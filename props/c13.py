"""C13 - dropping removes exactly what was named, for every kind of read, for good.
Mode A: TLC exhaustively checks specs/DropSem.tla (catalogue + live series + rows over the layers memory / flushed /
        out-of-order / compacted, rows spread over shard groups / index groups; Write, Flush, Compact, Restart,
        DropSeries(pred), the refused statements (DROP SERIES without FROM / with a time bound, DELETE, DROP SHARD),
        DropMeasurement, DropRP, DropDatabase in one step and in the three steps mark / stores delete / catalogue entry
        removed with writes and creates in between, and re-creation) for DroppedStaysGone, OthersUntouched, WritesLand,
        FreshAfterRecreate, AllShapesAgree, DeletedSetEverywhere, AckedCreateHolds.
Mode B: TLC simulates behaviours that share a skeleton of global actions (flush / compaction / restart); every behaviour
        is replayed over HTTP into its own database of ONE real single-node server per skeleton (the behaviours run
        concurrently and meet at a barrier for every global action, so that a flush or restart happens exactly where the
        behaviour has it).  After EVERY action the full read-shape matrix is issued and compared with the
        specification's expectation.  Skeletons A-E: one shard group; G, H: three shard groups weeks apart (H: two of
        them served by one index group); P, Q: two-phase drops with racing writes / creates."""
import json, os, random, re, sys, threading, time, itertools, glob, urllib.request
import concurrent.futures as cf
import vlib
sys.path.insert(0, os.path.join(vlib.ROOT, "tools"))
import vserver

PROP = "C13"
INSTS = ["rp1.m", "rp1.n", "rp2.m"]
NAMES = ["m", "n"]
SKELS = {
    "A": ["Flush", "RestartKill", "Flush"],
    "B": ["Flush", "Flush", "Compact", "RestartClean"],
    "C": ["RestartKill", "Flush", "RestartClean"],
    "D": ["Flush", "Compact", "RestartKill", "Flush", "Compact"],
    "E": ["RestartClean", "Flush", "Flush", "RestartKill"],
    "G": ["RestartClean", "Flush", "RestartKill"],          # shard groups / index groups over time
    "H": ["Flush", "RestartKill", "RestartClean"],          # ... two shard groups share an index group
    "P": ["RestartKill", "Flush", "RestartClean"],          # two-phase drops
    "Q": ["RestartClean", "RestartKill", "Flush"],
}
GROUPED = ("G", "H")
PHASED = ("P", "Q")
SEEDS = ["drop_forgets_memtable", "restart_resurrects", "taglisting_keeps_dropped", "recreate_reuses_version", "cross_rp_drop",
         "recreate_fresh", "late_index_unwired", "deleted_set_everywhere", "write_dropped_series_lost",
         "drop_series_time_ignored", "create_busy_acked", "store_purges_recreated", "reuse_version_after_finish",
         "drop_series_volatile"]
SEED_EXPECT = {"drop_forgets_memtable": "AllShapesAgree", "restart_resurrects": "DroppedStaysGone",
               "taglisting_keeps_dropped": "AllShapesAgree", "recreate_reuses_version": "DroppedStaysGone",
               "cross_rp_drop": "OthersUntouched", "recreate_fresh": "FreshAfterRecreate",
               "late_index_unwired": "DroppedStaysGone", "deleted_set_everywhere": "DeletedSetEverywhere",
               "write_dropped_series_lost": "WritesLand", "drop_series_time_ignored": "OthersUntouched",
               "create_busy_acked": "AckedCreateHolds", "store_purges_recreated": "OthersUntouched",
               "reuse_version_after_finish": "DroppedStaysGone", "drop_series_volatile": "DroppedStaysGone"}
F = "value"          # the field (PromQL reads the float field called value)
os.environ.setdefault("JAVA_TOOL_OPTIONS", "-Xmx3g")

CONV = 30.0          # bound (s) on the asynchronous convergence after an acknowledged statement
RANGE = 128          # series ids reserved per database incarnation
HEADROOM = 300       # seconds an epoch (time between two starts of the server) may last
SERVER_CONF = {
    # no automatic flush: the memtable is flushed only where the behaviour says so
    "data.memtable": {"write-cold-duration": '"1h"', "force-snapShot-duration": '"1h"'},
    "data.merge": {"min-interval": '"1s"'},
    # two databases with three policies each per behaviour: the thorough tier has more than the default of 100 policies
    "coordinator": {"rp-limit": "100000"},
}
EMPTY_ERRORS = ("measurement not found", "measurement is being delete", "database not found", "retention policy not found",
                "retention policy is being delete", "database is being delete", "policy not exist")
NAME_SCAN_SHAPES = {"plain", "ne", "nre", "ff", "gtag", "gtime", "cnt", "sum", "cntg", "sumg"}
RESUF_SHAPES = {"re", "cntre"}
ROW_SHAPES = ["plain", "eq", "ne", "re", "nre", "or", "and", "ff"]
ALL_SHAPES = ROW_SHAPES + ["gtag", "gtime", "cnt", "sum", "cntg", "sumg", "cntre",
                           # ORDER BY time DESC, per-series LIMIT / OFFSET, SLIMIT, fill(0) / fill(previous), sub-queries
                           "desc", "last", "lim", "slim", "fill0", "fillp", "sub", "subcnt", "submax",
                           # chunked answer, SELECT ... INTO source, PromQL range selector
                           "chunk", "into", "prom", "promb"]
LIST_SHAPES = ["series", "tkeys", "thost", "tregion", "scard", "fkeys", "pseries", "phost"]
RACING = ("CreateRPBusy", "CreateDatabaseBusy", "WriteRefused")
MARKS = ("DropRPMark", "DropDatabaseMark", "DropMeasurementMark")
GLOBALS = ("Flush", "Compact", "RestartClean", "RestartKill")
FINDING_TEXT = {
    "F-C13-1": "rows of a series removed by DROP SERIES are still returned by selections that scan the measurement's series by name "
               "(no tag filter, field filter, !=, !~, group by, aggregates)",
    "F-C13-2": "rows of a series removed by DROP SERIES are still returned by a positive regular-expression filter with alternatives",
    "F-C13-3": "listings of ANOTHER database lose live series after a DROP SERIES (pooled index search keeps the deleted set)",
    "F-C13-4": "DROP SERIES FROM rp.m also drops the matching series of the same measurement in the other retention policy",
    "F-C13-5": "SHOW TAG KEYS keeps listing the tag keys of a measurement whose series were all dropped",
    "F-C13-6": "SHOW SERIES / SHOW TAG VALUES FROM rp.m also list the series of the same measurement in the other retention policy",
    "F-C13-7": "rows of a series dropped while still in the write-ahead log come back after a restart",
    "F-C13-8": "the series of a dropped measurement stay listed through the same-named measurement of the other retention policy",
    "F-C13-9": "DROP SERIES does not hide the series of an index group that was created after the policy's deleted-series set (new "
               "shard group / index group): they stay readable until the next start, which then also removes what was written to them "
               "meanwhile and flushed",
    "F-C13-10": "DROP SERIES ... WHERE <tags> AND time < t is acknowledged and drops the WHOLE series (the time bound is ignored)",
    "F-C13-11": "CREATE RETENTION POLICY right after DROP RETENTION POLICY of the same name is acknowledged while the old policy is "
                "still being deleted, and the policy is gone a moment later",
    "F-C13-12": "SLIMIT / SOFFSET are ignored: every series is returned",
    "F-C13-13": "a kill right after an acknowledged DROP SERIES loses the record of the statement: the dropped series are back after the start",
    "F-C13-14": "a PromQL selector over several series omits live series that single-series selectors and SELECT return",
}
CAUSE = {"cross": "F-C13-4", "wal": "F-C13-7", "unwired": "F-C13-9", "timedrop": "F-C13-10", "volatile": "F-C13-13"}
DURABLE_AFTER = 3.0  # seconds after which the record of an acknowledged DROP SERIES is on disk (the table writes out every 1-2 s)


def skey(x):
    """total order on the canonical values (numbers before anything else, numerically)"""
    if isinstance(x, (list, tuple)):
        return (2, tuple(skey(e) for e in x))
    if isinstance(x, bool) or not isinstance(x, (int, float)):
        return (1, repr(x))
    return (0, x)


# ---------------------------------------------------------------------------------------------------
# TLC

def tlc(cfg, **kw):
    r = vlib.run_tlc("DropSemMC", cfg, **kw)
    vlib.tlc_must_pass(r, cfg)
    return r


def gen_behaviours(tier, seed):
    """-> ({skeleton letter: [hist]}, stats, future of the exhaustive run)"""
    quick = tier == "quick"
    letters = ["A", "B", "C", "G", "P"] if quick else ["A", "B", "C", "D", "E", "G", "H", "P", "Q"]
    only = os.environ.get("C13_ONLY")            # development aid: restrict the skeletons (never set by ./check)
    if only:
        letters = [k for k in letters if k in only]
    nsim = 24 if quick else 80
    depth = 10 if quick else 14
    per = 14 if quick else 36
    stats = {"sim": {}}
    out = {}
    cfgdir = vlib.scratch("c13cfg")

    def sim_cfg(k):
        """the simulation configuration of a skeleton with the behaviour length of the tier (two more steps where the drops
        are in three steps each)"""
        d = depth + (2 if k in PHASED else 0)
        txt = open(os.path.join(vlib.SPECS, "cfg", f"DropSem.sim.{k}.cfg")).read()
        txt, n = re.subn(r"(?m)^  Depth = \d+$", f"  Depth = {d}", txt)
        if n != 1:
            raise vlib.Infra(f"DropSem.sim.{k}.cfg: no Depth line")
        p = os.path.join(cfgdir, f"DropSem.sim.{k}.cfg")
        open(p, "w").write(txt)
        return p, d
    with cf.ThreadPoolExecutor(len(letters)) as ex:
        futs = {k: ex.submit(tlc, sim_cfg(k)[0], simulate=nsim, depth=sim_cfg(k)[1], seed=seed + 17 * i, timeout=900)
                for i, k in enumerate(letters)}
        for k, f in futs.items():
            r = f.result()
            # TLC prints the siblings of the last step of every simulated trace: keep one behaviour per trace
            groups = {}
            for h in r["traces"]:
                key = json.dumps([[e["a"], e["args"]] for e in h[:-1]], sort_keys=True)
                groups.setdefault(key, []).append(h)
            rnd = random.Random(seed * 31 + ord(k))
            hs = [rnd.choice(g) for _, g in sorted(groups.items())]
            # the more drops a behaviour has the better; a behaviour that meets a Compact with out-of-order rows first
            def ooo(h):
                return any(e["a"] == "Compact" and i and any(v["oo"] > 0 for v in h[i - 1]["lay"].values()) for i, e in enumerate(h))

            def drops(h):
                return sum(1 for e in h if e["a"].startswith("Drop") and e["a"] != "DropSeriesNoFrom")

            def late_group(h):
                """a DROP SERIES that meets an index group which was created after the policy's deleted set (the as-implemented
                world keeps rows the design drops), or rows spread over several groups when a drop happens"""
                sc = 0
                for i, e in enumerate(h):
                    if e["a"] in ("DropSeries", "DropSeriesTime") and i:
                        if any("unwired" in v["cause"] for v in e["imp"]["inst"].values()):
                            sc += 3
                        tgt = h[i - 1]["exp"]["inst"][e["args"]["i"]]["sel"]["plain"]
                        if len({r["t"] // 10 for r in tgt}) > 1:
                            sc += 3 if e["a"] == "DropSeriesTime" else 1
                return sc

            def races(h):
                sc = 0
                for i, e in enumerate(h):
                    if e["a"].endswith("Mark"):
                        sc += 1
                        if i and any(v["sel"]["plain"] and not e["exp"]["inst"][n]["sel"]["plain"] for n, v in h[i - 1]["exp"]["inst"].items()):
                            sc += 2          # the drop removes rows
                        if i + 1 < len(h) and (h[i + 1]["a"] in RACING or h[i + 1]["a"].startswith("Restart") or
                                               (h[i + 1]["a"] == "Write" and e["a"] == "DropMeasurementMark"
                                                and h[i + 1]["args"]["i"] == e["args"]["i"])):
                            sc += 2
                    if e["a"].endswith("Finish"):
                        sc += 2
                return sc
            per_new = per if quick else 20          # thorough: 36 per skeleton A-E, 20 per skeleton G H P Q
            if k in GROUPED:
                hs = sorted(hs, key=lambda h: (-late_group(h), -drops(h)))[:per_new]
            elif k in PHASED:
                hs = sorted(hs, key=lambda h: (-races(h), -drops(h)))[:per_new]
            else:
                first = sorted([h for h in hs if ooo(h)], key=lambda h: -drops(h))[:per // 3]
                rest = sorted([h for h in hs if h not in first], key=lambda h: -drops(h))
                hs = (first + rest)[:per]
            out[k] = hs
            stats["sim"][k] = {"traces": len(r["traces"]), "distinct_prefixes": len(groups), "replayed": len(hs), "num": nsim,
                               "depth": depth + (2 if k in PHASED else 0), "wall_s": round(r["wall_s"], 1), "skeleton": SKELS[k]}
    import shutil
    shutil.rmtree(cfgdir, ignore_errors=True)
    return out, stats


EXH = {"quick": ["DropSem.exh.quick.cfg", "DropSem.exh.groups.quick.cfg", "DropSem.exh.phases.quick.cfg"],
       "thorough": ["DropSem.exh.thorough.cfg", "DropSem.exh.groups.thorough.cfg", "DropSem.exh.phases.thorough.cfg"]}


def mode_a(tier):
    """the three exhaustive configurations: one shard group with every drop in one step (as before), several shard /
    index groups, two-phase drops"""
    runs = []
    with cf.ThreadPoolExecutor(3) as ex:
        futs = [(cfg, ex.submit(tlc, cfg, workers=6, timeout=2400)) for cfg in EXH["quick" if tier == "quick" else "thorough"]]
        for cfg, f in futs:
            r = f.result()
            runs.append({"cfg": cfg, "generated": r["generated"], "distinct": r["distinct"], "depth": r["depth"],
                         "wall_s": round(r["wall_s"], 1)})
    st = {"generated": sum(x["generated"] for x in runs), "distinct": sum(x["distinct"] for x in runs),
          "depth": max(x["depth"] for x in runs), "wall_s": max(x["wall_s"] for x in runs), "cfg": [x["cfg"] for x in runs],
          "runs": runs}
    return st


def check_seeds():
    """every mutation seed must give a TLC counterexample of the named invariant (the invariants are not vacuous)"""
    res = {}
    with cf.ThreadPoolExecutor(3) as ex:
        futs = {d: ex.submit(vlib.run_tlc, "DropSemMC", f"DropSem.dev.{d}.cfg", workers=3, timeout=900) for d in SEEDS}
        for d, f in futs.items():
            r = f.result()
            res[d] = r["violated"]
            if r["violated"] != SEED_EXPECT[d]:
                raise vlib.Infra(f"mutation seed {d}: TLC reports {r['violated']}, expected a counterexample of {SEED_EXPECT[d]}\n" + r["out"][-1500:])
    return res


# ---------------------------------------------------------------------------------------------------
# read shapes in Python (mirror of the operators of DropSem.tla; cross-checked against `exp` for every step)

def rt(r):
    return (r["h"], r["r"], r["t"], r["v"])


HRANK = {"a": 1, "b": 2, "c": 3}
RRANK = {"x": 1, "y": 2}


def bucket(t):
    return ((t - 1) // 2) * 2 + 1


def shapes_of(rows, k, groups=(0,)):
    """rows: list of (h, r, t, v).  Canonical answers of every row shape (mirror of the operators of DropSem.tla)."""
    R = sorted(rows)

    def grp(f):
        d = {}
        for x in R:
            d.setdefault(x[0], []).append(x)
        return {h: f(v) for h, v in d.items()}
    gt = {}
    for x in R:
        b = bucket(x[2])
        gt[b] = gt.get(b, 0) + 1
    re_ = [x for x in R if x[0] in ("a", "c")]
    ser = {}
    for x in R:
        ser.setdefault(x[:2], []).append(x)
    probe = sorted(ser.get(("a", "x"), []), key=lambda x: x[2])
    last = probe[-1:]
    lim = probe[1:2]
    first = min(ser, key=lambda s: 10 * HRANK.get(s[0], 4) + RRANK.get(s[1], 3)) if ser else None
    fill0, fillp = {}, {}
    for g in sorted({x[2] // 10 for x in R}):
        win = [x for x in R if x[2] // 10 == g]
        prev = -1
        for b in (10 * g + 1, 10 * g + 3, 10 * g + 5, 10 * g + 7):
            inb = [x for x in win if bucket(x[2]) == b]
            fill0[b] = len(inb)
            if inb:
                prev = sum(x[3] for x in inb)
            fillp[b] = prev
    ne = [x for x in R if x[0] != "b"]
    return {
        "plain": R, "eq": [x for x in R if x[0] == "a"], "ne": ne, "re": re_,
        "nre": [x for x in R if x[0] != "b"], "or": [x for x in R if x[0] == "a" or x[1] == "y"],
        "and": [x for x in R if x[0] != "b" and x[1] == "x"], "ff": [x for x in R if x[3] > k],
        "gtag": grp(lambda v: sorted((x[2], x[3]) for x in v)), "gtime": gt,
        "cnt": len(R), "sum": sum(x[3] for x in R), "cntg": grp(len), "sumg": grp(lambda v: sum(x[3] for x in v)),
        "cntre": len(re_),
        "last": last, "lim": lim, "slim": sorted(ser[first]) if ser else [], "fill0": fill0, "fillp": fillp,
        "subcnt": len(ne), "submax": grp(lambda v: max(x[3] for x in v)),
        # the same rows through other machinery
        "desc": R, "chunk": R, "into": R, "sub": R, "prom": R, "promb": R,
    }


SPEC_SHAPES = ["plain", "eq", "ne", "re", "nre", "or", "and", "ff", "gtag", "gtime", "cnt", "sum", "cntg", "sumg", "cntre",
               "last", "lim", "slim", "fill0", "fillp", "subcnt", "submax"]
ALIAS = {"desc": "plain", "chunk": "plain", "into": "plain", "sub": "plain", "prom": "plain", "promb": "plain"}


def leaked(live, extra, k, shape):
    """answer of a shape whose series come from the measurement-name scan when that scan returns the deleted series
    `extra` too: the index, not the rows, decides a tag condition, and for != / !~ the set subtracted from the scan
    holds no deleted series - so ALL rows of the deleted series come back, whatever their tag values"""
    if shape in ("ne", "nre"):
        return sorted(shapes_of(live, k)[shape] + list(extra))
    return shapes_of(live + list(extra), k)[shape]


def canon_exp(e):
    """TLA+ export of ShapesOf -> the canonical form of shapes_of"""
    out = {}
    for s in ROW_SHAPES + ["last", "lim", "slim"]:
        out[s] = sorted(rt(r) for r in e[s])
    out["gtag"] = {g["h"]: sorted((x["t"], x["v"]) for x in g["x"]) for g in e["gtag"]}
    out["gtime"] = {g["b"]: g["c"] for g in e["gtime"]}
    out["fill0"] = {g["b"]: g["c"] for g in e["fill0"]}
    out["fillp"] = {g["b"]: g["c"] for g in e["fillp"]}
    out["cnt"], out["sum"], out["cntre"], out["subcnt"] = e["cnt"], e["sum"], e["cntre"], e["subcnt"]
    out["cntg"] = {g["h"]: g["x"] for g in e["cntg"]}
    out["sumg"] = {g["h"]: g["x"] for g in e["sumg"]}
    out["submax"] = {g["h"]: g["x"] for g in e["submax"]}
    for a, b in ALIAS.items():
        out[a] = out[b]
    return out


def canon_listing(l):
    series = sorted((s["h"], s["r"]) for s in l["series"])
    return {"series": series, "tkeys": sorted(l["tkeys"]),
            "thost": sorted(l["thost"]), "tregion": sorted(l["tregion"]), "scard": l["scard"], "fkeys": sorted(l["fkeys"]),
            "pseries": series, "phost": sorted(l["thost"])}


# ---------------------------------------------------------------------------------------------------
# concretisation of one behaviour

WEEK, DAY = 604800, 86400
MONDAY0 = 345600          # 1970-01-05 00:00 UTC, a Monday; Go's Truncate(7d) / (1d) / (2h) boundaries fall on it too


def group_bases(now_s, shared):
    """start seconds of the three shard groups of a behaviour, all in the past, weeks apart: a Tuesday 02:25 UTC six weeks
    ago (inside one 2-hour, one-day and one-week group for the 1.5 hours a behaviour spans), the same time two weeks later
    and four weeks later.  shared: the second group lies two DAYS after the first, in the same week: with SHARD DURATION
    1d and INDEX DURATION 7d the two shard groups are served by one index group."""
    monday = ((now_s - MONDAY0) // WEEK) * WEEK + MONDAY0
    b0 = monday - 6 * WEEK + DAY + 2 * 3600 + 25 * 60
    return [b0, b0 + (2 * DAY if shared else 2 * WEEK), b0 + 4 * WEEK]


class Conc:
    def __init__(self, bid, idx, hist, seed):
        self.hist = hist
        self.idx = idx
        rnd = random.Random(f"{seed}-{bid}-{idx}")
        self.rnd = rnd
        self.db = f"c13{bid.lower()}{idx}s{seed}"
        self.wdb = self.db + "w"
        sfx = rnd.choice(["", "0", "_cpu", "x9"])
        self.mst = {"m": "m" + sfx, "n": "n" + sfx}
        self.step = rnd.choice([1, 60, 600]) * 10 ** 9
        w = 2 * self.step
        self.shared = bid == "H"
        # the shard-group duration is set through the retention policy DDL (default of an infinite policy: 7d)
        if self.shared:
            self.rp_opts = {"rp1": " shard duration 1d index duration 7d", "rp2": " shard duration 1d index duration 7d"}
        else:
            self.rp_opts = {rp: rnd.choice(["", " shard duration 1d", " shard duration 2h"]) for rp in ("rp1", "rp2")}
        # time(1) of every group is aligned to the window of two time units
        self.gbase = [((b * 10 ** 9) // w) * w - self.step for b in group_bases(int(time.time()), self.shared)]
        self.base = self.gbase[0]
        # the shard groups the behaviour writes to
        self.groups = sorted({0} | {r["t"] // 10 for e in hist for r in self.rows_of(e)})
        self.kind = rnd.choice(["int", "float"])
        self.kv = rnd.choice([1, 3, 1000003]) if self.kind == "int" else rnd.choice([0.5, 1.5, 1024.0])
        self.re_text = rnd.choice(["/a|c/", "/c|a/", "/[ac]/"])
        self.nre_text = rnd.choice(["/b/", "/^b$/"])
        self.chunk_size = rnd.choice([1, 2, 3])
        # statements always name the retention policy: an unqualified DROP MEASUREMENT m / DROP SERIES FROM m addresses
        # the measurement in the whole database (InfluxQL), only the qualified form names ONE policy's measurement
        self.drop_default_plain = False

    @staticmethod
    def rows_of(e):
        a = e["args"]
        if not isinstance(a, dict):
            return []
        return list(a.get("rows") or []) + list((a.get("race") or {}).get("rows") or [])

    def t(self, t):
        return self.gbase[t // 10] + (t % 10) * self.step

    def win(self, g):
        return self.t(10 * g + 1), self.t(10 * g + 9)

    def val(self, v):
        return v * self.kv

    def lp_val(self, v):
        return f"{v * self.kv}i" if self.kind == "int" else repr(float(v * self.kv))

    def src(self, inst):
        rp, n = inst.split(".")
        return f"{rp}.{self.mst[n]}"

    def lines(self, inst, rows):
        n = inst.split(".")[1]
        return [f"{self.mst[n]},host={r['h']},region={r['r']} {F}={self.lp_val(r['v'])} {self.t(r['t'])}" for r in rows]

    def rp_ddl(self, rp, db=None):
        return (f"create retention policy {rp} on {db or self.db} duration 0s replication 1{self.rp_opts[rp]}"
                + (" default" if rp == "rp1" else ""))

    # ---- the read-shape matrix -------------------------------------------------------------------
    def inst_statements(self, inst, k):
        s = self.src(inst)
        lit = self.val(k) if self.kind == "int" else repr(float(self.val(k)))
        out = [
            ("plain", f"select * from {s}"),
            ("eq", f"select * from {s} where host = 'a'"),
            ("ne", f"select * from {s} where host != 'b'"),
            ("re", f"select * from {s} where host =~ {self.re_text}"),
            ("nre", f"select * from {s} where host !~ {self.nre_text}"),
            ("or", f"select * from {s} where host = 'a' or region = 'y'"),
            ("and", f"select * from {s} where host != 'b' and region = 'x'"),
            ("ff", f"select * from {s} where {F} > {lit}"),
            ("gtag", f"select {F} from {s} group by host"),
            ("agg", f"select count({F}), sum({F}) from {s}"),
            ("aggg", f"select count({F}), sum({F}) from {s} group by host"),
            ("cntre", f"select count({F}) from {s} where host =~ {self.re_text}"),
            ("desc", f"select * from {s} order by time desc"),
            ("last", f"select * from {s} where host = 'a' and region = 'x' order by time desc limit 1"),
            ("lim", f"select * from {s} where host = 'a' and region = 'x' limit 1 offset 1"),
            ("slim", f"select {F} from {s} group by * slimit 1"),
            ("sub", f"select * from (select {F} from {s} group by *)"),
            ("subcnt", f"select count({F}) from (select {F} from {s} where host != 'b')"),
            ("submax", f"select max({F}) from (select {F} from {s} group by host) group by host"),
        ]
        for g in self.groups:
            lo, hi = self.win(g)
            rng = f"from {s} where time >= {lo} and time < {hi} group by time({2 * self.step}ns)"
            out += [(f"gtime@{g}", f"select count({F}) {rng} fill(none)"),
                    (f"fill0@{g}", f"select count({F}) {rng} fill(0)"),
                    (f"fillp@{g}", f"select sum({F}) {rng} fill(previous)")]
        return out

    def list_statements(self, inst):
        m = self.src(inst)
        if inst.startswith("rp1.") and self.drop_default_plain:
            m = m.split(".", 1)[1]
        return [("series", f"show series from {m}"), ("tkeys", f"show tag keys from {m}"),
                ("thost", f"show tag values from {m} with key = host"), ("tregion", f"show tag values from {m} with key = region"),
                ("scard", f"show series exact cardinality from {m}"), ("fkeys", f"show field keys from {m}")]

    def pred_text(self, p):
        k = p["k"]
        v1, v2 = sorted(p["v1"]), sorted(p["v2"])
        if k == "eq":
            return f"{p['t1']} = '{v1[0]}'"
        if k == "ne":
            return f"{p['t1']} != '{v1[0]}'"
        if k == "re":
            form = self.rnd.choice(["|", "^(|)$", "[]"])
            body = "|".join(v1)
            return f"{p['t1']} =~ " + {"|": f"/{body}/", "^(|)$": f"/^({body})$/", "[]": f"/[{''.join(v1)}]/"}[form]
        if k == "nre":
            return f"{p['t1']} !~ /{'|'.join(v1)}/"
        if k == "and":
            return f"{p['t1']} = '{v1[0]}' and {p['t2']} = '{v2[0]}'"
        if k == "or":
            return f"{p['t1']} = '{v1[0]}' or {p['t2']} = '{v2[0]}'"
        if k == "andne":
            return f"{p['t1']} = '{v1[0]}' and {p['t2']} != '{v2[0]}'"
        if k == "all":
            return self.rnd.choice(["host =~ /.*/", ""])
        return "host = 'zz'"

    # ---- answers -> abstract canonical form ---------------------------------------------------------
    def abs_t(self, ts):
        for g in reversed(range(len(self.gbase))):
            if ts >= self.gbase[g]:
                d = ts - self.gbase[g]
                if d % self.step == 0 and d // self.step < 10:
                    return 10 * g + d // self.step
                break
        return ("raw", ts)

    def abs_v(self, x):
        if isinstance(x, bool) or not isinstance(x, (int, float)):
            return ("raw", x)
        q = x / self.kv
        return int(round(q)) if abs(q - round(q)) < 1e-9 else ("raw", x)


def result_map(body):
    """{statement_id: result} of a /query answer"""
    if not isinstance(body, dict):
        return None
    return {r.get("statement_id", 0): r for r in body.get("results", [])}


def res_series(res):
    """(error text or '', list of series) of one statement result; missing result = empty"""
    if res is None:
        return "", []
    err = res.get("error", "")
    if err and any(e in err for e in EMPTY_ERRORS):
        return "", []
    return err, res.get("series") or []


class Obs:
    """parsed real answers of one step"""

    def __init__(self):
        self.inst = {}      # inst -> shape -> canonical
        self.name = {}      # name -> shape -> canonical
        self.meas = {}      # database-level listings
        self.wit = {}
        self.errors = []


# ---------------------------------------------------------------------------------------------------

class Behaviour(threading.Thread):
    def __init__(self, batch, idx, hist, seed):
        super().__init__(daemon=True)
        self.batch, self.srv = batch, batch.srv
        self.c = Conc(batch.bid, idx, hist, seed)
        self.idx = idx
        self.hist = hist
        self.divs = []         # divergences: dicts
        self.known = []        # attributed divergences
        self.error = None
        self.queries = 0
        self.steps_done = 0
        self.lags = {}
        self.shape_checks = 0
        self.db_exists = False
        self.dropped_any = False
        self.flaky = 0
        self.stmts = []
        self.into_n = 0
        self.phase_seen = {}   # racing step -> phase of the real catalogue when its statement was answered
        self.bursts = 0
        self.deferred = 0
        self.race_attempts = 0
        self.resync = 0
        self.real_rp_extra = set()     # policies that exist for real although the behaviour has them absent (phase missed)
        self.in_burst = False
        self.burst_pending = None

    # ---- plumbing ----------------------------------------------------------------------------------
    def q(self, text, db=None, post=False, nodb=False, **params):
        self.queries += 1
        for attempt in range(4):
            try:
                st, body = self.srv.query(text, db=None if nodb else (db or self.c.db), epoch="ns", method="POST" if post else "GET",
                                          **params)
                return st, body
            except Exception as ex:   # connection reset while the server is busy
                last = ex
                time.sleep(0.5)
        raise vlib.Infra(f"query failed: {text}: {last}")

    def ddl(self, text, db=None, ok_errors=()):
        self.stmts.append(text)
        st, body = self.q(text, db=db, post=True)
        err = ""
        if isinstance(body, dict):
            for r in body.get("results", []):
                err = r.get("error", "") or err
            err = body.get("error", err)
        if st != 200 and not err:
            err = f"HTTP {st} {body}"
        return err

    def write_once(self, db, lines, rp):
        try:
            st, body = self.srv.write(db, lines, rp=rp)
        except Exception as ex:
            st, body = 0, str(ex)
        return st, body.strip()[:200]

    def write(self, db, lines, rp):
        if rp != "rpz":
            self.stmts.append(f"write db={db} rp={rp}: " + " | ".join(lines))
        t0 = time.time()
        last = ""
        while time.time() - t0 < CONV:
            st, body = self.write_once(db, lines, rp)
            if st == 204:
                return ""
            last = f"{st} {body}"
            time.sleep(0.4)
        return last

    def poll(self, fn, what, bound=CONV):
        t0 = time.time()
        while True:
            if fn():
                self.lags[what] = max(self.lags.get(what, 0), round(time.time() - t0, 2))
                return True
            if time.time() - t0 > bound:
                return False
            time.sleep(0.2)

    def catalogue(self):
        """the catalogue as the meta node holds it (GET /getdata of the meta HTTP service): used to WAIT for the phases of a
        two-phase drop and to record in which phase a racing statement was answered - never for a verdict"""
        for attempt in range(4):
            try:
                with urllib.request.urlopen(f"http://127.0.0.1:{self.srv.base + 1}/getdata", timeout=20) as r:
                    return json.loads(r.read().decode())
            except Exception as ex:
                last = ex
                time.sleep(0.3)
        raise vlib.Infra(f"meta /getdata failed: {last}")

    def cat_db(self, db=None):
        return (self.catalogue().get("Databases") or {}).get(db or self.c.db)

    def db_phase(self):
        d = self.cat_db()
        return "none" if d is None else ("marked" if d.get("MarkDeleted") else "live")

    def rp_phase(self, rp):
        d = self.cat_db()
        if d is None:
            return "none"
        r = (d.get("RetentionPolicies") or {}).get(rp)
        return "none" if r is None else ("marked" if r.get("MarkDeleted") or d.get("MarkDeleted") else "live")

    def mst_versions(self, inst):
        """-> (current versioned name or None, [versioned names marked deleted]) of the measurement in the catalogue"""
        rp, n = inst.split(".")
        d = self.cat_db()
        r = ((d or {}).get("RetentionPolicies") or {}).get(rp) or {}
        cur, marked = None, []
        for name, m in (r.get("Measurements") or {}).items():
            if name.rsplit("_", 1)[0] != self.c.mst[n]:
                continue
            if m.get("MarkDeleted"):
                marked.append(name)
            else:
                cur = name
        return cur, marked

    def mst_dirs(self, inst, versioned):
        rp = inst.split(".")[0]
        return glob.glob(os.path.join(self.srv.dir, "data", "data", self.c.db, "*", rp, "*", "tssp", versioned))

    # ---- database life cycle (with the reserved series-id range) ------------------------------------
    def create_database(self, db, slot=None):
        """create database + both policies + the padding policy; the padding series move the database's series ids into
        a range of its own (ids start at the creation second; equal ids in different databases would let the stale
        delete set of one database's index searches hide series of the other: finding F-C13-3, shown by the witness)"""
        t1 = int(time.time())
        for stmt in (f"create database {db} with duration 0s replication 1{self.c.rp_opts['rp1']} name rp1",
                     self.c.rp_ddl("rp2", db).replace(" default", ""),
                     f"create retention policy rpz on {db} duration 0s replication 1"):
            err = self.ddl(stmt)
            if err:
                raise vlib.Infra(f"{stmt}: {err}")
        slot = self.batch.alloc() if slot is None else slot
        self.pad(db, t1, slot)
        return slot

    def pad(self, db, t1, slot):
        target = self.batch.epoch_start + HEADROOM + RANGE * slot
        n = target - t1
        if n <= 0:
            raise vlib.Infra(f"epoch lasted longer than {HEADROOM}s: cannot keep series id ranges apart")
        ts = self.c.base
        tag = f"{slot}e{self.batch.epoch}"
        for off in range(0, n, 5000):
            lines = [f"zpad,p=p{tag}x{i} v=1i {ts}" for i in range(off, min(n, off + 5000))]
            err = self.write(db, lines, "rpz")
            if err:
                raise vlib.Infra(f"padding write failed: {err}")
        self.batch.padded += n

    def setup(self):
        slot = self.create_database(self.c.db)
        self.slot = slot
        self.db_exists = True
        # the witness: a second database with fixed contents whose series ids collide with this database's
        self.create_database(self.c.wdb, slot=slot)
        wl = [f"m,host={h},region={r} v=1i {self.c.t(1)}" for h, r in (("a", "x"), ("b", "x"), ("c", "y"))]
        err = self.write(self.c.wdb, wl, "rp1")
        if err:
            raise vlib.Infra(f"witness write failed: {err}")
        self.wit_exp = {"series": [("a", "x"), ("b", "x"), ("c", "y")], "thost": ["a", "b", "c"], "cnt": 3}
        # the SELECT ... INTO copies go to policy rp2 of the witness database: its shard groups exist beforehand (the write of
        # an INTO statement does not wait for a shard group to be created)
        err = self.write(self.c.wdb, [f"zinto,p=g{g} v=1i {self.c.t(10 * g + 1)}" for g in self.c.groups], "rp2")
        if err:
            raise vlib.Infra(f"witness write failed: {err}")

    # ---- reading -----------------------------------------------------------------------------------
    def rows_from(self, series, what, obs, tags=False):
        """rows (h, r, t, v) of an answer whose series carry the tags as columns (select *) or as series tags (group by *)"""
        c = self.c
        rows = []
        for s in series:
            cols = s["columns"]
            tg = s.get("tags") or {}
            try:
                it, iv = cols.index("time"), cols.index(F)
                ih = None if "host" in tg else cols.index("host")
                ir = None if "region" in tg else cols.index("region")
            except ValueError:
                obs.errors.append(f"{what}: columns {cols} tags {tg}")
                continue
            if len(cols) != 2 + (ih is not None) + (ir is not None):
                obs.errors.append(f"{what}: columns {cols}")
                continue
            for v in s["values"]:
                rows.append((tg["host"] if ih is None else v[ih], tg["region"] if ir is None else v[ir], c.abs_t(v[it]), c.abs_v(v[iv])))
        return rows

    def read_inst(self, inst, k, obs):
        stmts = self.c.inst_statements(inst, k)
        res = self.multi([t for _, t in stmts], self.c.db, obs, inst)
        if res is None:
            return
        out = {"gtime": {}, "fill0": {}, "fillp": {}}
        c = self.c
        for (name, text), (err, series) in zip(stmts, res):
            if err:
                obs.errors.append(f"{inst}/{name}: {err}")
                continue
            if name in ROW_SHAPES or name in ("desc", "last", "lim", "slim", "sub"):
                rows = self.rows_from(series, f"{inst}/{name}", obs)
                if name == "desc":
                    ts = [x[2] for x in rows if not isinstance(x[2], tuple)]
                    if any(ts[i] < ts[i + 1] for i in range(len(ts) - 1)):
                        obs.errors.append(f"{inst}/desc: ORDER BY time DESC answered in the order {ts}")
                out[name] = sorted(rows, key=skey)
            elif name == "gtag":
                d = {}
                for s in series:
                    h = (s.get("tags") or {}).get("host")
                    d.setdefault(h, [])
                    d[h] += [(c.abs_t(v[0]), c.abs_v(v[1])) for v in s["values"]]
                out["gtag"] = {h: sorted(v, key=skey) for h, v in d.items()}
            elif name.startswith(("gtime@", "fill0@", "fillp@")):
                d = out[name.split("@")[0]]
                for s in series:
                    for v in s["values"]:
                        if name.startswith("fillp@"):
                            d[c.abs_t(v[0])] = -1 if v[1] is None else c.abs_v(v[1])
                        else:
                            d[c.abs_t(v[0])] = v[1]
            elif name == "agg":
                cnt, sm = 0, 0
                for s in series:
                    for v in s["values"]:
                        cnt, sm = v[1], c.abs_v(v[2])
                out["cnt"], out["sum"] = cnt, sm
            elif name == "aggg":
                cg, sg = {}, {}
                for s in series:
                    h = (s.get("tags") or {}).get("host")
                    for v in s["values"]:
                        cg[h], sg[h] = v[1], c.abs_v(v[2])
                out["cntg"], out["sumg"] = cg, sg
            elif name in ("cntre", "subcnt"):
                cnt = 0
                for s in series:
                    for v in s["values"]:
                        cnt = v[1]
                out[name] = cnt
            elif name == "submax":
                d = {}
                for s in series:
                    h = (s.get("tags") or {}).get("host")
                    for v in s["values"]:
                        d[h] = c.abs_v(v[1])
                out["submax"] = d
        obs.inst[inst] = out
        self.read_chunked(inst, obs)
        if c.kind == "float":
            self.read_prom(inst, obs)

    def multi(self, stmts, db, obs, what):
        """issue the statements in one request -> [(error, series)] per statement, or None"""
        st, body = self.q("; ".join(stmts), db=db)
        rm = result_map(body)
        if st != 200 or rm is None:
            err = json.dumps(body)[:300]
            if any(e in err for e in EMPTY_ERRORS):     # whole request refused: database / policy gone
                rm = {}
            else:
                obs.errors.append(f"{what}: HTTP {st} {err}")
                return None
        return [res_series(rm.get(i)) for i in range(len(stmts))]

    def read_chunked(self, inst, obs):
        """the plain selection as a chunked answer: the rows are the concatenation of the chunks"""
        self.queries += 1
        try:
            st, body = self.srv.http("GET", "/query", {"q": f"select * from {self.c.src(inst)}", "db": self.c.db, "epoch": "ns",
                                                        "chunked": "true", "chunk_size": str(self.c.chunk_size)})
        except Exception as ex:
            obs.errors.append(f"{inst}/chunk: {ex}")
            return
        series, nchunks = [], 0
        for line in body.splitlines():
            if not line.strip():
                continue
            try:
                doc = json.loads(line)
            except Exception:
                obs.errors.append(f"{inst}/chunk: {line[:200]}")
                return
            if st != 200 and any(e in line for e in EMPTY_ERRORS):
                continue
            for res in doc.get("results", []):
                err, ser = res_series(res)
                if err:
                    obs.errors.append(f"{inst}/chunk: {err}")
                    return
                series += ser
                nchunks += 1
            if "results" not in doc and not any(e in line for e in EMPTY_ERRORS):
                obs.errors.append(f"{inst}/chunk: HTTP {st} {line[:200]}")
                return
        for s in series:
            if len(s["values"]) > self.c.chunk_size:
                obs.errors.append(f"{inst}/chunk: a chunk of {len(s['values'])} rows with chunk_size={self.c.chunk_size}")
        obs.inst[inst]["chunk"] = sorted(self.rows_from(series, f"{inst}/chunk", obs), key=skey)
        self.batch.chunks += nchunks

    def prom(self, path, params, what, obs):
        self.queries += 1
        try:
            st, body = self.srv.http("GET", path, params)
            doc = json.loads(body)
        except Exception as ex:
            obs.errors.append(f"{what}: {ex}")
            return None
        if st != 200 or doc.get("status") != "success":
            if any(e in body for e in EMPTY_ERRORS):
                return []
            obs.errors.append(f"{what}: HTTP {st} {body[:200]}")
            return None
        return doc.get("data") or []

    def read_prom(self, inst, obs):
        """the same measurement through the Prometheus API (float field `value`): a range selector over the window of every
        shard group returns the raw samples; /series and /label/host/values list the series"""
        c = self.c
        rp, n = inst.split(".")
        metric = c.mst[n]
        # two forms of the selector: with a label matcher that every series satisfies, and bare
        for shape, sel in (("prom", metric + '{host=~"a|b|c"}'), ("promb", metric)):
            rows = []
            ok = True
            for g in c.groups:
                lo, hi = c.win(g)
                w = (hi - lo + c.step) // 10 ** 9
                data = self.prom("/api/v1/query", {"query": f"{sel}[{w}s]", "db": c.db, "rp": rp, "time": str(hi // 10 ** 9)},
                                 f"{inst}/{shape}", obs)
                if data is None:
                    ok = False
                    continue
                for s in (data.get("result") if isinstance(data, dict) else []) or []:
                    m = s.get("metric") or {}
                    for ts, v in s.get("values") or []:
                        try:
                            rows.append((m.get("host"), m.get("region"), c.abs_t(int(round(float(ts) * 1000)) * 10 ** 6), c.abs_v(float(v))))
                        except Exception:
                            rows.append((m.get("host"), m.get("region"), ("raw", ts), ("raw", v)))
            if ok:
                obs.inst[inst][shape] = sorted(rows, key=skey)
        lo, hi = c.win(c.groups[0])[0], c.win(c.groups[-1])[1]
        rng = {"match[]": metric, "db": c.db, "rp": rp, "start": str(lo // 10 ** 9 - 1), "end": str(hi // 10 ** 9 + 1)}
        data = self.prom("/api/v1/series", rng, f"{inst}/pseries", obs)
        if data is not None:
            obs.name.setdefault(inst, {})["pseries"] = sorted(((m.get("host"), m.get("region")) for m in data), key=skey)
        data = self.prom("/api/v1/label/host/values", rng, f"{inst}/phost", obs)
        if data is not None:
            obs.name.setdefault(inst, {})["phost"] = sorted(data, key=skey)

    def read_into(self, inst, si, obs):
        """SELECT * INTO a fresh copy: the copy holds exactly the rows the source returns"""
        c = self.c
        self.into_n += 1
        tgt = f"cp{si}x{self.into_n}"
        full = f'"{c.wdb}"."rp2"."{tgt}"'
        st, body = self.q(f"select * into {full} from {c.src(inst)} group by *", post=True)
        rm = result_map(body) or {}
        err, series = res_series(rm.get(0))
        if err:
            obs.errors.append(f"{inst}/into: {err}")
            return
        written = next((v[1] for s in series for v in s["values"]), 0)
        rows = []
        t0 = time.time()
        while True:
            res = self.multi([f"select * from rp2.{tgt}"], c.wdb, obs, f"{inst}/into")
            if res is None:
                return
            err, series = res[0]
            rows = sorted(self.rows_from(series, f"{inst}/into", obs), key=skey) if not err else []
            if len(rows) >= written or time.time() - t0 > 10:
                break
            time.sleep(0.5)
        obs.inst.setdefault(inst, {})["into"] = rows
        if written != len(rows):
            obs.errors.append(f"{inst}/into: {written} rows reported written, the copy holds {len(rows)}")

    @staticmethod
    def parse_listing(kind, series):
        if kind == "series":
            keys = []
            for s in series:
                for v in s["values"]:
                    tags = dict(p.split("=", 1) for p in v[0].split(",")[1:])
                    keys.append((tags.get("host"), tags.get("region")))
            return sorted(keys, key=skey)
        if kind == "tkeys":
            return sorted(v[0] for s in series for v in s["values"])
        if kind in ("thost", "tregion"):
            return sorted(v[1] for s in series for v in s["values"])
        if kind == "scard":
            return sum(v[0] for s in series for v in s["values"])
        if kind == "fkeys":
            return sorted(v[0] for s in series for v in s["values"])
        if kind in ("meas", "measre"):
            return sorted(v[0] for s in series for v in s["values"])
        return next((v[1] for s in series for v in s["values"]), 0)      # cnt

    def read_names(self, obs):
        mm, nn = self.c.mst["m"], self.c.mst["n"]
        stmts = [(n, k, t) for n in INSTS for k, t in self.c.list_statements(n)]
        stmts += [("db", "meas", "show measurements"), ("db", "measre", f"show measurements with measurement =~ /^({mm}|{nn})$/")]
        res = self.multi([t for _, _, t in stmts], self.c.db, obs, "listing")
        if res is None:
            return
        for (n, k, _), (err, series) in zip(stmts, res):
            if err:
                obs.errors.append(f"{n}/{k}: {err}")
            elif n == "db":
                names = self.parse_listing(k, series)
                obs.meas[k] = [x for x in names if x in (mm, nn)] if k == "meas" else names
            else:
                obs.name.setdefault(n, {})[k] = self.parse_listing(k, series)

    def read_witness(self, obs):
        stmts = [("series", "show series from m"), ("thost", "show tag values from m with key = host"), ("cnt", "select count(v) from rp1.m")]
        res = self.multi([t for _, t in stmts], self.c.wdb, obs, "witness")
        if res is None:
            return
        for (k, _), (err, series) in zip(stmts, res):
            if err:
                obs.errors.append(f"witness/{k}: {err}")
            else:
                obs.wit[k] = self.parse_listing(k, series)

    def read_all(self, k, insts=INSTS, names=True, witness=True, into=None, si=0):
        obs = Obs()
        for inst in insts:
            self.read_inst(inst, k, obs)
        if names:
            self.read_names(obs)
        if witness:
            self.read_witness(obs)
        if into:
            self.read_into(into, si, obs)
        return obs

    # ---- judging -----------------------------------------------------------------------------------
    def candidates(self, imp_i, shape, k, live_d, flags):
        """answers the as-implemented model predicts for `shape` of one instance: [(answer, finding ids)]"""
        live = [rt(r) for r in imp_i["live"]]
        gm = [rt(r) for r in imp_i["gm"]]
        gq = [rt(r) for r in imp_i["gq"]]
        leak = None
        if shape in NAME_SCAN_SHAPES and imp_i["scan"] in ("yes", "maybe"):
            leak = "F-C13-1"
        if shape in RESUF_SHAPES and imp_i["resuf"] == "yes":
            leak = "F-C13-2"
        base_d = shapes_of(live_d, k)[shape]
        base_i = shapes_of(live, k)[shape]
        outs = []
        why = {CAUSE[c] for c in imp_i["cause"]} or {"F-C13-4"}
        if base_i != base_d:
            outs.append((base_i, set(why)))             # the as-implemented rows differ: cross-policy drop / unwired index group ...
        if shape == "slim" and flags["slimit"] == "yes":
            # SLIMIT is ignored: every series comes back
            outs.append((shapes_of(live_d, k)["plain"], {"F-C13-12"}))
            if live != live_d:
                outs.append((shapes_of(live, k)["plain"], {"F-C13-12"} | why))
        if leak and (gm or gq):
            by_series = {}
            for r in gq:
                by_series.setdefault(r[:2], []).append(r)
            groups = list(by_series.values())[:6]
            for pick in itertools.product([0, 1], repeat=len(groups)):
                extra = list(gm)
                for take, g in zip(pick, groups):
                    if take:
                        extra += g
                if not extra:
                    continue
                ans = leaked(live, extra, k, shape)
                ids = {leak}
                if leaked(live_d, extra, k, shape) != ans:
                    ids |= why
                if ans != base_d:
                    outs.append((ans, ids))
        return outs

    def compare(self, obs, e):
        """-> list of divergences {scope, shape, real, exp, known(set or None), extra(bool)}"""
        k = e["exp"]["k"]
        divs = []
        if obs.errors:
            for er in obs.errors[:3]:
                divs.append({"scope": "query", "shape": "error", "real": er, "exp": "an answer", "known": None, "extra": False})
        flags = e["imp"]["flags"]
        for inst in INSTS:
            if inst not in obs.inst:
                continue
            exp = self.exp_c[inst]
            real = obs.inst[inst]
            imp_i = dict(e["imp"]["inst"][inst], resuf=e["imp"]["flags"]["resuf"])
            live_d = exp["plain"]
            for s in ALL_SHAPES:
                if s not in real:
                    continue
                self.shape_checks += 1
                if real[s] == exp[s]:
                    continue
                known = None
                for ans, ids in self.candidates(imp_i, s, k, live_d, flags):
                    if real[s] == ans:
                        known = set(ids)
                        break
                if known is None and s in ("prom", "promb") and real.get("plain") == exp["plain"] and all(x in exp[s] for x in real[s]):
                    # predicate of F-C13-14: a PromQL selector over several series returns live samples only (right series, time
                    # and value) but not all of them, while the plain selection is complete in the same reading
                    known = {"F-C13-14"}
                divs.append({"scope": inst, "shape": s, "real": real[s], "exp": exp[s], "known": known,
                             "extra": has_extra(real[s], exp[s])})
        impi = e["imp"]["inst"]

        def ser(x):
            return sorted((y["h"], y["r"]) for y in x["ser"])
        for inst in INSTS:
            if inst not in obs.name:
                continue
            exp = self.exp_l[inst]
            real = obs.name[inst]
            me = impi[inst]
            # as implemented a listing reaches every policy whose measurement has the same versioned name
            group = [j for j in INSTS if j.split(".")[1] == inst.split(".")[1] and impi[j]["ex"] == "yes" and impi[j]["ver"] == me["ver"]] \
                if me["ex"] == "yes" else []
            own = ser(me) if me["ex"] == "yes" else []
            union = sorted(set(x for j in group for x in ser(impi[j])))
            cross = set()
            for j in group:
                if ser(impi[j]) != self.exp_l[j]["series"]:
                    cross |= {CAUSE[c] for c in impi[j]["cause"]} or {"F-C13-4"}
            # ... and the index entries a dropped incarnation with that versioned name left behind
            dead = sorted(set((d["h"], d["r"]) for j in INSTS if j.split(".")[1] == inst.split(".")[1] and impi[j]["usable"] == "yes"
                              for d in impi[j]["dead"] if d["ver"] == me["ver"])) if me["ex"] == "yes" else []
            union_dead = sorted(set(union) | set(dead))
            for s in LIST_SHAPES:
                if s not in real:
                    continue
                self.shape_checks += 1
                if real[s] == exp[s]:
                    continue
                known = None

                def proj(keys):
                    return {"series": keys, "pseries": keys, "thost": sorted({x[0] for x in keys}), "phost": sorted({x[0] for x in keys}),
                            "tregion": sorted({x[1] for x in keys}), "scard": len(keys),
                            "tkeys": ["host", "region"] if keys else []}.get(s)
                if s == "tkeys" and flags["schema"] == "yes" and me["ex"] == "yes" and real[s] == ["host", "region"]:
                    known = {"F-C13-5"}
                elif s == "fkeys":
                    known = None
                elif real[s] == proj(own) and own != exp["series"]:
                    known = {CAUSE[c] for c in me["cause"]} or {"F-C13-4"}
                elif flags["listrp"] == "yes" and real[s] == proj(union):
                    known = {"F-C13-6"} | cross
                elif flags["listrp"] == "yes" and dead and real[s] == proj(union_dead):
                    known = {"F-C13-8"} | cross | ({"F-C13-6"} if union != own else set())
                divs.append({"scope": inst, "shape": s, "real": real[s], "exp": exp[s], "known": known,
                             "extra": has_extra(real[s], exp[s])})
        # the measurements of the database
        mexp = sorted(self.c.mst[n] for n in e["exp"]["meas"])
        for s in ("meas", "measre"):
            if s in obs.meas:
                self.shape_checks += 1
                if obs.meas[s] != mexp:
                    divs.append({"scope": "db", "shape": s, "real": obs.meas[s], "exp": mexp, "known": None,
                                 "extra": has_extra(obs.meas[s], mexp)})
        if obs.wit:
            for s, exp in self.wit_exp.items():
                if s not in obs.wit:
                    continue
                self.shape_checks += 1
                real = obs.wit[s]
                if real == exp:
                    continue
                known = None
                # predicate of F-C13-3: a LISTING of the untouched witness omits live series after this database dropped series
                if s in ("series", "thost") and self.dropped_any and set(real) < set(exp):
                    known = {"F-C13-3"}
                divs.append({"scope": "witness", "shape": s, "real": real, "exp": exp, "known": known,
                             "extra": has_extra(real, exp)})
        return divs

    def settle(self, si, e, nochange, into=None):
        """read the matrix until it equals the expectation (or what an open finding predicts) or the bound expires"""
        k = e["exp"]["k"]
        self.exp_c = {i: canon_exp(e["exp"]["inst"][i]["sel"]) for i in INSTS}
        self.exp_l = {i: canon_listing(e["exp"]["inst"][i]["list"]) for i in INSTS}
        # the specification's shape operators and the replay's agree (for every step)
        for i in INSTS:
            mine = shapes_of(self.exp_c[i]["plain"], k)
            if mine != self.exp_c[i]:
                bad = [s for s in mine if mine[s] != self.exp_c[i].get(s)]
                raise vlib.Infra(f"shape operators of DropSem.tla and of the replay differ on {bad}: "
                                 f"{ {s: (mine[s], self.exp_c[i].get(s)) for s in bad} }")
        t0 = time.time()
        first = True
        while True:
            obs = self.read_all(k, into=into, si=si)
            divs = self.compare(obs, e)
            # an incomplete PromQL answer counts as the finding only if it lasts (new series become searchable after 1-2 s)
            open_ = [d for d in divs if not d["known"] or (d["known"] == {"F-C13-14"} and time.time() - t0 < 6)]
            if not open_:
                break
            if first and nochange and any(d["extra"] for d in open_):
                break           # data (re)appears after an action that changes nothing: no convergence to wait for
            if time.time() - t0 > CONV:
                break
            first = False
            time.sleep(0.8)
        lag = round(time.time() - t0, 2)
        self.lags[e["a"]] = max(self.lags.get(e["a"], 0), lag)
        for d in divs:
            d.update(step=si, action=e["a"], args=e["args"], lag=lag)
            (self.known if d["known"] else self.divs).append(d)
        return not open_

    def div(self, si, e, scope, shape, real, exp, known=None, extra=False):
        d = {"scope": scope, "shape": shape, "real": real, "exp": exp, "known": known, "step": si, "action": e["a"],
             "args": e["args"], "extra": extra}
        (self.known if known else self.divs).append(d)

    # ---- two-phase drops ---------------------------------------------------------------------------
    def race(self, e, stmt, rp_of_race):
        """the drop statement with writes in flight: the rows of `race` are sent again and again from shortly before the
        statement until after its acknowledgement.  A write SENT after the acknowledgement must be refused (there is no
        fresh object it could go to); whatever happened to the others, none of the rows may be readable afterwards
        (they are not part of the expectation of this step)."""
        c = self.c
        race = e["args"]["race"]
        lines = c.lines(race["i"], race["rows"]) if race["rows"] else []
        log = []
        stop = threading.Event()

        def hammer():
            while not stop.is_set():
                for ln in lines:
                    t1 = time.time()
                    st, body = self.write_once(c.db, [ln], rp_of_race)
                    log.append((t1, time.time(), st, body, ln))
                time.sleep(0.004)
        th = threading.Thread(target=hammer, daemon=True)
        if lines:
            self.stmts.append(f"in flight during the next statement, rp={rp_of_race}: " + " | ".join(lines))
            th.start()
            time.sleep(self.c.rnd.choice([0.01, 0.03, 0.08]))
        err = self.ddl(stmt)
        t_ack = time.time()
        if lines:
            time.sleep(0.03 if self.in_burst else 0.25)
            stop.set()
            th.join(timeout=30)
        self.race_attempts += len(log)
        late = [x for x in log if x[0] > t_ack and x[2] == 204]
        return err, late, len(log)

    def wait_phase(self, si, e, what, fn):
        if not self.poll(fn, f"{e['a']} phase"):
            self.div(si, e, what, "phase", "background deletion did not get there within the bound", e["a"], extra=True)

    def burst_plan(self, si):
        """the racing steps that follow the mark at si directly"""
        e = self.hist[si]
        out = []
        j = si + 1
        while j < len(self.hist):
            f = self.hist[j]
            if f["a"] in RACING or (f["a"] == "Write" and e["a"] == "DropMeasurementMark" and f["args"]["i"] == e["args"]["i"]
                                    and not out):
                out.append(j)
                j += 1
            else:
                break
        return out

    # ---- actions -----------------------------------------------------------------------------------
    def drop_stmt(self, e):
        c = self.c
        a, args = e["a"], e["args"]
        if a in ("DropRP", "DropRPMark"):
            return f"drop retention policy {args['rp']} on {c.db}"
        if a in ("DropDatabase", "DropDatabaseMark"):
            return f"drop database {c.db}"
        src = c.src(args["i"])
        if args["i"].startswith("rp1.") and c.drop_default_plain:
            src = src.split(".", 1)[1]
        return f"drop measurement {src}"

    def series_drop_stmt(self, e):
        c = self.c
        a, args = e["a"], e["args"]
        w = c.pred_text(args["p"])
        src = c.src(args["i"])
        if args["i"].startswith("rp1.") and c.drop_default_plain:
            src = src.split(".", 1)[1]
        if a == "DropSeriesTime":
            tcond = f"time {'<' if args['op'] == 'lt' else '>'} {c.t(args['t'])}"
            w = f"{w} and {tcond}" if w else tcond
        return f"drop series from {src}" + (f" where {w}" if w else "")

    def after_drop_ack(self, si, e, err):
        a, args = e["a"], e["args"]
        if a in ("DropSeries", "DropSeriesTime"):
            self.dropped_any = True
            if a == "DropSeries" and err:
                self.div(si, e, args["i"], "statement", f"{self.series_drop_stmt(e)}: {err}", "acknowledged")
            return
        if err:
            self.div(si, e, args.get("rp") or args.get("i") or "db", "statement", f"{self.drop_stmt(e)}: {err}", "acknowledged")
        if a in ("DropDatabase", "DropDatabaseMark"):
            self.db_exists = False
            self.real_rp_extra = set()
        if a in ("DropRP", "DropRPMark"):
            self.real_rp_extra.discard(args["rp"])

    def local(self, si, e):
        c = self.c
        a, args = e["a"], e["args"]
        db = c.db
        note = ""
        if a == "Write":
            inst = args["i"]
            err = self.write(db, c.lines(inst, args["rows"]), inst.split(".")[0])
            if err:
                self.divs.append({"scope": inst, "shape": "write", "real": err, "exp": "204", "known": None, "step": si, "action": a,
                                  "args": args, "extra": False})
        elif a == "WriteRefused":
            # the database / policy of the measurement is gone (or being deleted): the write must not be acknowledged
            inst = args["i"]
            rp = inst.split(".")[0]
            lines = c.lines(inst, args["rows"])
            self.stmts.append(f"write (to be refused) db={db} rp={rp}: " + " | ".join(lines))
            st, body = self.write_once(db, lines, rp)
            if st == 204 and rp in self.real_rp_extra:
                note = "phase missed"        # the policy exists for real (an early CREATE came after the deletion had finished)
            elif st == 204 and self.burst_pending is not None:
                self.burst_pending.append((si, e, inst, rp))      # judged once the acknowledged creates of the burst are
            elif st == 204:
                self.div(si, e, inst, "write", "204 (acknowledged)", "refused: the policy / database was dropped and not re-created",
                         extra=True)
        elif a in ("DropSeries", "DropSeriesTime"):
            inst = args["i"]
            stmt = self.series_drop_stmt(e)
            err = self.ddl(stmt)
            self.batch.series_drop_ack = max(self.batch.series_drop_ack, time.time())
            self.dropped_any = True
            if a == "DropSeries" and err:
                self.divs.append({"scope": inst, "shape": "statement", "real": f"{stmt}: {err}", "exp": "acknowledged", "known": None,
                                  "step": si, "action": a, "args": args, "extra": False})
            if a == "DropSeriesTime" and not err:
                # acknowledged although the design refuses a time-bounded DROP SERIES: the reads below decide what it did
                note = "acknowledged"
        elif a == "DropSeriesNoFrom":
            stmt = f"drop series where {c.pred_text(args['p']) or 'host = ' + chr(39) + 'a' + chr(39)}"
            err = self.ddl(stmt)
            if not err:
                # acknowledged although the specification (as the executor) rejects it: the reads below decide
                note = "acknowledged"
        elif a == "Unsupported":
            src = c.src(args["i"])
            stmt = {"Delete": f"delete from {src} where host = 'a'",
                    "DeleteTime": f"delete from {src} where time < {c.t(3)}",
                    "DropShard": "drop shard 1"}[args["what"]]
            err = self.ddl(stmt)
            if not err:
                note = "acknowledged"
        elif a in ("DropMeasurement", "DropMeasurementMark"):
            err = self.ddl(self.drop_stmt(e))
            self.after_drop_ack(si, e, err)
        elif a in ("DropRP", "DropRPMark"):
            rp = args["rp"]
            if a == "DropRPMark" and args["race"]["rows"]:
                err, late, n = self.race(e, self.drop_stmt(e), rp)
                if late:
                    self.div(si, e, rp, "race", f"{len(late)} writes sent after the acknowledgement of the drop were acknowledged: "
                             f"{late[0][4]}", "refused", extra=True)
            else:
                err = self.ddl(self.drop_stmt(e))
            self.after_drop_ack(si, e, err)
            if a == "DropRP":
                # two-phase drop: wait (bounded) until the catalogue no longer lists the policy
                if not self.poll(lambda: self.rp_listed(rp) is False, "DropRP catalogue"):
                    self.div(si, e, rp, "catalogue", "policy still listed", "gone", extra=True)
        elif a == "CreateRP":
            rp = args["rp"]
            err = self.ddl(c.rp_ddl(rp))
            if err:
                raise vlib.Infra(f"create retention policy: {err}")
            self.real_rp_extra.discard(rp)
        elif a in ("DropDatabase", "DropDatabaseMark"):
            if a == "DropDatabaseMark" and args["race"]["rows"]:
                err, late, n = self.race(e, self.drop_stmt(e), args["race"]["i"].split(".")[0])
                if late:
                    self.div(si, e, "db", "race", f"{len(late)} writes sent after the acknowledgement of the drop were acknowledged: "
                             f"{late[0][4]}", "refused", extra=True)
            else:
                err = self.ddl(self.drop_stmt(e))
            self.after_drop_ack(si, e, err)
            if a == "DropDatabase":
                if not self.poll(lambda: self.db_listed() is False, "DropDatabase catalogue"):
                    self.div(si, e, "db", "catalogue", "database still listed", "gone", extra=True)
        elif a == "CreateDatabase":
            self.create_database(db)
            self.db_exists = True
        # ---- the internal steps of a two-phase drop: wait until the real system has got there ----------------------
        elif a == "DropRPStore":
            rp = args["rp"]
            self.wait_phase(si, e, rp, lambda: self.rp_phase(rp) == "none" or rp in self.real_rp_extra or
                            not glob.glob(os.path.join(self.srv.dir, "data", "data", db, "*", rp)))
        elif a == "DropRPFinish":
            rp = args["rp"]
            self.wait_phase(si, e, rp, lambda: rp in self.real_rp_extra or self.rp_phase(rp) == "none")
        elif a == "DropDatabaseStore":
            self.wait_phase(si, e, "db", lambda: self.db_phase() == "none" or not os.path.exists(os.path.join(self.srv.dir, "data", "data", db)))
        elif a == "DropDatabaseFinish":
            self.wait_phase(si, e, "db", lambda: self.db_phase() == "none")
        elif a == "DropMeasurementStore":
            inst = args["i"]
            self.wait_phase(si, e, inst, lambda: all(not self.mst_dirs(inst, v) for v in self.mst_versions(inst)[1]))
        elif a == "DropMeasurementFinish":
            inst = args["i"]
            self.wait_phase(si, e, inst, lambda: not self.mst_versions(inst)[1])
        # ---- creates that meet an object being deleted ---------------------------------------------------------------
        elif a == "CreateRPBusy":
            note = self.create_rp_busy(si, e)
        elif a == "CreateDatabaseBusy":
            stmt = f"create database {db} with duration 0s replication 1{c.rp_opts['rp1']} name rp1"
            err = self.ddl(stmt)
            self.phase_seen[si] = "refused" if err else self.db_phase()
            if not err:
                # acknowledged: wait until no deletion of that name is under way, then look whether the database is there
                self.poll(lambda: self.db_phase() != "marked", "CreateDatabaseBusy settle")
                time.sleep(0.3)
                if self.db_phase() != "live":
                    self.div(si, e, "db", "create", "acknowledged, and the database is gone once the background deletion has finished",
                             "refused, or a database that stays")
                else:
                    # the deletion had already finished: the database exists again (fresh).  Re-synchronise with the behaviour.
                    self.resync += 1
                    err = self.ddl(f"drop database {db}")
                    if err or not self.poll(lambda: self.db_phase() == "none", "resync"):
                        raise vlib.Infra(f"could not re-synchronise after an early CREATE DATABASE: {err}")
                    note = "phase missed"
        return note

    def rp_listed(self, rp):
        st, body = self.q(f"show retention policies on {self.c.db}")
        names = [v[0] for s in (result_map(body) or {}).get(0, {}).get("series", []) or [] for v in s["values"]]
        return rp in names

    def db_listed(self):
        st, body = self.q("show databases", nodb=True)
        names = [v[0] for s in (result_map(body) or {}).get(0, {}).get("series", []) or [] for v in s["values"]]
        return self.c.db in names

    def create_rp_busy(self, si, e, judge=True):
        """CREATE RETENTION POLICY for a name whose policy is being deleted.  Refused = the design.  Acknowledged: either the
        deletion had already finished and the policy exists afresh (the phase was missed: the replay drops it again to stay
        in step with the behaviour), or the acknowledged policy is gone a moment later (the as-implemented prediction)."""
        rp = e["args"]["rp"]
        err = self.ddl(self.c.rp_ddl(rp))
        # the phase is sampled AFTER the answer (sampling takes time): "marked" = the deletion was still under way
        self.phase_seen[si] = "refused" if err else self.rp_phase(rp)
        if err:
            return "refused"
        if not judge:
            return "acknowledged"
        return self.judge_rp_ack(si, e)

    def judge_rp_ack(self, si, e):
        rp = e["args"]["rp"]
        # wait until no deletion of that name is under way any more, then look whether the acknowledged policy is there
        self.poll(lambda: self.rp_phase(rp) != "marked", "CreateRPBusy settle")
        time.sleep(0.3)
        if self.rp_phase(rp) == "live":
            self.real_rp_extra.add(rp)
            self.resync += 1
            return "phase missed"
        busy = e["imp"]["flags"]["busyack"] == "yes" and e["imp"]["rp"][rp]["ackc"] == "yes"
        self.div(si, e, rp, "create", "acknowledged, and the policy is gone once the background deletion has finished",
                 "refused, or a policy that stays", known={"F-C13-11"} if busy else None, extra=False)
        return "acknowledged and lost"

    def resync_rp(self, rp):
        """drop a policy that exists for real although the behaviour has it absent (an early CREATE met a finished deletion)"""
        if rp in self.real_rp_extra:
            err = self.ddl(f"drop retention policy {rp} on {self.c.db}")
            if err or not self.poll(lambda: self.rp_phase(rp) == "none", "resync"):
                raise vlib.Infra(f"could not re-synchronise after an early CREATE RETENTION POLICY: {err}")
            self.real_rp_extra.discard(rp)

    def burst(self, si, plan):
        """a mark and the racing steps that follow it, issued back to back (no reads in between: the background deletion takes
        well under a second); the statement outcomes are judged per step, the read matrix after the last step"""
        self.bursts += 1
        e = self.hist[si]
        self.in_burst = True
        try:
            self.local(si, e)
        finally:
            self.in_burst = False
        acks = []
        self.burst_pending = []
        try:
            for j in plan:
                f = self.hist[j]
                if f["a"] == "CreateRPBusy":
                    acks.append((j, self.create_rp_busy(j, f, judge=False)))
                else:
                    self.local(j, f)
                    if f["a"] == "Write":
                        self.phase_seen[j] = "marked" if self.mst_versions(f["args"]["i"])[1] else "none"
                    elif f["a"] == "WriteRefused":
                        self.phase_seen[j] = self.rp_phase(f["args"]["i"].split(".")[0]) if self.db_phase() == "live" else self.db_phase()
            pend = self.burst_pending
        finally:
            self.burst_pending = None
        for j, r in acks:
            if r == "acknowledged":
                self.judge_rp_ack(j, self.hist[j])
        for j, f, inst, rp in pend:
            # acknowledged although the behaviour has the policy dropped: fine only if an early CREATE of this burst met a finished
            # deletion (the policy exists afresh, the rows go with the re-synchronising drop below)
            if rp not in self.real_rp_extra:
                self.div(j, f, inst, "write", "204 (acknowledged)", "refused: the policy / database was dropped and not re-created",
                         extra=True)
        for rp in list(self.real_rp_extra):
            self.resync_rp(rp)

    def run(self):
        try:
            si = 0
            n = len(self.hist)
            while si < n:
                e = self.hist[si]
                a = e["a"]
                last = si
                into = None
                if a in GLOBALS:
                    self.batch.arrive(self, a)
                    self.stmts.append(a)
                    nochange = True
                elif (a in MARKS and si + 1 < n and self.hist[si + 1]["a"].startswith("Restart")) or \
                        (a in ("DropSeries", "DropSeriesTime") and si + 1 < n and self.hist[si + 1]["a"] == "RestartKill"):
                    # the statement is issued by the batch right before it stops the server: the restart meets the
                    # background deletion under way / the kill comes before the record of the DROP SERIES is on disk
                    # (judged after the restart)
                    self.deferred += 1
                    nxt = self.hist[si + 1]
                    stmt = self.drop_stmt(e) if a in MARKS else self.series_drop_stmt(e)
                    res = self.batch.arrive(self, nxt["a"], defer=(stmt, si))
                    self.stmts += ["   (the statement above was acknowledged right before the server was stopped)", nxt["a"]]
                    self.after_drop_ack(si, e, res)
                    last = si + 1
                    nochange = False
                elif a in MARKS and self.burst_plan(si):
                    plan = self.burst_plan(si)
                    self.burst(si, plan)
                    last = plan[-1]
                    nochange = False
                else:
                    self.local(si, e)
                    for rp in list(self.real_rp_extra):
                        if a != "WriteRefused":
                            self.resync_rp(rp)
                    nochange = a in ("DropSeriesNoFrom", "CreateRP", "CreateDatabase", "Unsupported", "WriteRefused", "CreateRPBusy",
                                     "CreateDatabaseBusy", "DropRPStore", "DropRPFinish", "DropDatabaseStore", "DropDatabaseFinish",
                                     "DropMeasurementStore", "DropMeasurementFinish") or \
                        (a == "DropSeriesTime" and e["imp"]["flags"]["timedrop"] != "yes")
                    if a in ("DropSeries", "DropSeriesTime", "DropMeasurement", "DropMeasurementMark") or si == n - 1:
                        # SELECT ... INTO from the measurement the statement named (or, at the end, from any)
                        tgt = e["args"]["i"] if isinstance(e["args"], dict) and "i" in e["args"] else self.c.rnd.choice(INSTS)
                        if e["exp"]["inst"][tgt]["sel"]["plain"] or e["imp"]["inst"][tgt]["live"]:
                            into = tgt
                self.settle(last, self.hist[last], nochange, into=into)
                self.steps_done += last - si + 1
                si = last + 1
                if self.batch.abort:
                    break
            self.check_topology()
        except BaseException as ex:   # noqa
            self.error = ex
            if isinstance(ex, vlib.Infra):
                self.batch.abort = True
        finally:
            self.batch.finished(self)

    def check_topology(self):
        """the index groups the real catalogue holds are the ones the behaviour has (the time placement of the replay is as
        modelled); a mismatch is a defect of the replay, not a verdict"""
        if self.steps_done < len(self.hist) or not self.db_exists:
            return
        imp = self.hist[-1]["imp"]
        d = self.cat_db()
        for rp in ("rp1", "rp2"):
            r = ((d or {}).get("RetentionPolicies") or {}).get(rp)
            if r is None or r.get("MarkDeleted") or imp["inst"][f"{rp}.m"]["usable"] != "yes":
                continue
            real = len([g for g in (r.get("IndexGroups") or []) if not any(ix.get("MarkDelete") for ix in g.get("Indexes") or [])])
            if real != len(imp["rp"][rp]["ig"]):
                raise vlib.Infra(f"{self.c.db} {rp}: the catalogue has {real} index groups, the behaviour {len(imp['rp'][rp]['ig'])} "
                                 f"({self.c.rp_opts[rp]!r}, shared={self.c.shared})")


def has_extra(real, exp):
    """does the real answer contain something the expectation does not (data that should be gone)?"""
    try:
        if isinstance(real, dict):
            for k, v in real.items():
                if k not in exp:
                    return True
                if isinstance(v, list) and any(x not in exp[k] for x in v):
                    return True
                if isinstance(v, (int, float)) and isinstance(exp[k], (int, float)) and v > exp[k]:
                    return True
            return False
        if isinstance(real, list):
            ex = list(exp)
            for x in real:
                if x in ex:
                    ex.remove(x)
                else:
                    return True
            return False
        if isinstance(real, (int, float)) and isinstance(exp, (int, float)):
            return real > exp
    except Exception:
        pass
    return True


class Batch:
    """one skeleton = one server; the behaviours run concurrently and meet at every global action"""

    def __init__(self, bid, hists, seed, skeleton=None):
        self.bid, self.seed = bid, seed
        self.skeleton = skeleton or SKELS[bid]
        self.hists = hists
        self.lock = threading.Condition()
        self.waiting = {}
        self.live = set()
        self.round = 0
        self.abort = False
        self.slot = 0
        self.epoch = 0
        self.epoch_start = int(time.time())
        self.padded = 0
        self.globals_done = []
        self.merge_observed = 0
        self.srv = None
        self.infra = None
        self.chunks = 0
        self.deferred = {}          # behaviour -> (statement, step): issued right before the server is stopped
        self.defer_result = {}
        self.deferred_done = 0
        self.series_drop_ack = 0.0   # when the last DROP SERIES that is NOT followed by the kill was acknowledged

    def alloc(self):
        with self.lock:
            self.slot += 1
            return self.slot

    def ctrl(self, **params):
        st, body = self.srv.http("POST", "/debug/ctrl", params)
        if st != 200:
            raise vlib.Infra(f"/debug/ctrl {params}: {st} {body[:200]}")

    def compaction(self, on):
        v = "true" if on else "false"
        self.ctrl(mod="compen", switchon=v, allshards=v)
        self.ctrl(mod="merge", switchon=v, allshards=v)

    def ooo_files(self):
        return glob.glob(os.path.join(self.srv.dir, "data", "data", "c13*", "*", "rp[12]", "*", "tssp", "*", "out-of-order", "*.tssp"))

    def arrive(self, b, kind, defer=None):
        with self.lock:
            r = self.round
            self.waiting[b] = kind
            if defer:
                self.deferred[b] = defer
            self.lock.notify_all()
            while self.round == r and not self.abort:
                self.lock.wait(1.0)
        if self.abort:
            raise vlib.Infra("batch aborted")
        return self.defer_result.pop(b, "")

    def run_deferred(self):
        """the drop statements of the behaviours whose mark is followed by the restart: all at once, then the server is
        stopped while the background deletions are under way"""
        todo, self.deferred = dict(self.deferred), {}
        if not todo:
            return

        def one(b, stmt):
            try:
                self.defer_result[b] = b.ddl(stmt)
            except BaseException as ex:   # noqa
                self.defer_result[b] = f"exception {ex}"
            if stmt.startswith("drop database"):
                b.db_exists = False
        ths = [threading.Thread(target=one, args=(b, stmt)) for b, (stmt, si) in todo.items()]
        for t in ths:
            t.start()
        for t in ths:
            t.join()
        self.deferred_done += len(todo)

    def finished(self, b):
        with self.lock:
            self.live.discard(b)
            self.waiting.pop(b, None)
            self.lock.notify_all()

    def do_global(self, kind):
        t0 = time.time()
        if kind == "Flush":
            st, body = self.srv.flush()
            if st != 200:
                raise vlib.Infra(f"flush: {st} {body[:200]}")
        elif kind == "Compact":
            before = len(self.ooo_files())
            self.compaction(True)
            t1 = time.time()
            # the compactor wakes up every 10 s; out-of-order files are merged into the ordered ones
            while before and time.time() - t1 < 40 and self.ooo_files():
                time.sleep(0.5)
            if before and not self.ooo_files():
                self.merge_observed += 1
            if not before:
                time.sleep(1.0)
            self.compaction(False)
        else:
            if kind == "RestartKill":
                # the record of a DROP SERIES is on disk a second or two after the acknowledgement (finding F-C13-13): a kill
                # meets that window only where the behaviour has the kill directly after the statement (deferred, below)
                time.sleep(max(0.0, DURABLE_AFTER - (time.time() - self.series_drop_ack)))
            self.run_deferred()
            t_kill = int(time.time())
            self.srv.restart(kill=(kind == "RestartKill"), wait=180)
            self.compaction(False)
            # the series ids of every database restart at its load second (with a new logical clock): a new epoch of
            # id ranges; every existing database is padded into its range again
            with self.lock:
                self.epoch += 1
                self.epoch_start = int(time.time())
                self.slot = 0
            for b in sorted(self.live, key=lambda x: x.idx):
                if b.db_exists:
                    b.slot = self.alloc()
                    b.pad(b.c.db, t_kill, b.slot)
        self.globals_done.append((kind, round(time.time() - t0, 1)))

    def run(self):
        try:
            self.srv = vserver.Server(extra_conf=SERVER_CONF, name="c13" + self.bid)
            self.epoch_start = int(time.time())
            self.compaction(False)
            bs = [Behaviour(self, i, h, self.seed) for i, h in enumerate(self.hists)]
            self.behaviours = bs
            for b in bs:
                b.setup()
            self.live = set(bs)
            for b in bs:
                b.start()
            while True:
                with self.lock:
                    while not self.abort and self.live and not all(b in self.waiting for b in self.live):
                        self.lock.wait(1.0)
                    if self.abort or not self.live:
                        break
                    kinds = set(self.waiting.values())
                if len(kinds) != 1:
                    raise vlib.Infra(f"behaviours of one skeleton wait for different global actions: {kinds}")
                self.do_global(kinds.pop())
                with self.lock:
                    self.waiting.clear()
                    self.round += 1
                    self.lock.notify_all()
            for b in bs:
                b.join(timeout=60)
        except BaseException as ex:   # noqa
            self.infra = ex
            self.abort = True
            with self.lock:
                self.lock.notify_all()
        finally:
            if self.srv:
                if self.infra:
                    vlib.log(f"[c13] batch {self.bid}: {self.infra}\n" + self.srv.tail_log(1500))
                self.srv.stop()


# ---------------------------------------------------------------------------------------------------

def short(x, n=260):
    s = json.dumps(x, default=str)
    return s if len(s) <= n else s[:n] + "..."


def describe(d):
    return (f"step {d.get('step')} {d.get('action')} {short(d.get('args'), 120)}: [{d['scope']}/{d['shape']}] real {short(d['real'])} "
            f"expected {short(d['exp'])}" + (f" (after polling {d.get('lag')}s)" if d.get("lag") is not None else ""))


def run_batches(sets, seed):
    batches = [Batch(k, hs, seed) for k, hs in sets.items() if hs]
    ths = [threading.Thread(target=b.run) for b in batches]
    for t in ths:
        t.start()
    for t in ths:
        t.join()
    # the root cause first: "batch aborted" is what the other behaviours of a batch report once one of them has failed
    roots = [x.error for b in batches for x in getattr(b, "behaviours", []) if isinstance(x.error, vlib.Infra) and str(x.error) != "batch aborted"]
    if roots:
        raise roots[0]
    for b in batches:
        if b.infra:
            if isinstance(b.infra, vlib.Infra):
                raise b.infra
            raise vlib.Infra(f"batch {b.bid}: {type(b.infra).__name__}: {b.infra}")
        for x in b.behaviours:
            if x.error:
                if isinstance(x.error, vlib.Infra):
                    raise x.error
                import traceback
                raise vlib.Infra(f"behaviour {b.bid}{x.idx}: " + "".join(traceback.format_exception(x.error))[-1500:])
    return batches


def report(batches, stats, exh, seeds, tier, seed, t0):
    open_ids = {f["id"] for f in vlib.load_known(PROP)}
    nviol = 0
    known_count = {}
    examples = {}
    behaviours = [x for b in batches for x in b.behaviours]
    for b in batches:
        for x in b.behaviours:
            bad = list(x.divs)
            for d in x.known:
                ids = d["known"]
                if ids <= open_ids:
                    for i in ids:
                        known_count.setdefault(i, set()).add((b.bid, x.idx))
                        examples.setdefault(i, f"{x.c.db} " + describe(d))
                else:
                    bad.append(d)       # predicted only by a deviation that is not (or no longer) an open finding
            if bad:
                nviol += 1
                if nviol <= 6:
                    path = vlib.save_replay(PROP, {"case": {"skeleton": b.skeleton, "bid": b.bid, "idx": x.idx, "hist": x.hist},
                                                  "seed": seed, "result": [describe(d) for d in bad[:8]], "statements": x.stmts,
                                                  "example_queries": [t for _, t in x.c.inst_statements("rp1.m", 1)]})
                    print(f"VIOLATION property={PROP} replay={path}")
                    for d in bad[:4]:
                        vlib.log("   " + x.c.db + " " + describe(d))
    for kid in sorted(known_count):
        print(f"KNOWN-FINDING: property={PROP} {kid} ({FINDING_TEXT.get(kid, '')}) re-observed in {len(known_count[kid])} behaviours, "
              f"e.g. {examples[kid][:420]}")
    lags = {}
    for x in behaviours:
        for k, v in x.lags.items():
            lags[k] = max(lags.get(k, 0), v)
    acts = {}
    for x in behaviours:
        for e in x.hist[:x.steps_done]:
            acts[e["a"]] = acts.get(e["a"], 0) + 1
    cov = {
        "states": exh["distinct"], "transitions": exh["generated"],
        "traces_validated_against_impl": len(behaviours),
        "samples": [[{"a": e["a"], "args": e["args"]} for e in behaviours[0].hist]] if behaviours else [],
        "exhaustive": True,
        "evaluations": sum(x.shape_checks for x in behaviours),
        "distinct_nontrivial": len({json.dumps([[e["a"], e["args"]] for e in x.hist], sort_keys=True) for x in behaviours}),
        "rule": "behaviours of DropSem.tla (seeded TLC simulation, one behaviour per simulated trace, all behaviours of a batch share a "
                "skeleton of global actions); distinct = distinct action sequences; evaluations = read-shape answers compared "
                f"({len(ALL_SHAPES)} selection shapes + {len(LIST_SHAPES)} listings for each of 3 measurement instances (the PromQL ones "
                "only where the field is a float) + 2 database listings + 3 witness reads, after every action, final poll)",
        "tlc": {"exh": exh, "sim": stats["sim"], "mutation_seeds": seeds},
        "steps_replayed": sum(x.steps_done for x in behaviours),
        "actions_replayed": acts,
        "queries": sum(x.queries for x in behaviours),
        "read_shape_matrix": {"selections per measurement instance": ALL_SHAPES, "listings per measurement instance": LIST_SHAPES,
                              "database": ["meas", "measre"], "witness database": ["series", "thost", "cnt"]},
        "skeletons": sorted(b.bid for b in batches),
        "shard_groups_written": {b.bid: sorted({g for x in b.behaviours for g in x.c.groups}) for b in batches},
        "two_phase_drops": {"bursts (mark + racing statements back to back)": sum(x.bursts for x in behaviours),
                            "marks acknowledged right before the server was stopped": sum(x.deferred for x in behaviours),
                            "write attempts in flight during a drop": sum(x.race_attempts for x in behaviours),
                            "catalogue phase when a racing statement was answered": phase_hist(behaviours),
                            "re-synchronisations (early create met a finished deletion)": sum(x.resync for x in behaviours)},
        "chunks_read": sum(b.chunks for b in batches),
        "into_copies": sum(x.into_n for x in behaviours),
        "promql_behaviours": sum(1 for x in behaviours if x.c.kind == "float"),
        "max_convergence_lag_s": lags,
        "convergence_bound_s": CONV,
        "globals": {b.bid: b.globals_done for b in batches},
        "out_of_order_merges_observed": sum(b.merge_observed for b in batches),
        "padding_series": sum(b.padded for b in batches),
        "known_finding_behaviours": {k: len(v) for k, v in known_count.items()},
        "behaviours_with_divergence": nviol,
    }
    vlib.write_evidence(PROP, tier, seed, "model_checking", cov, time.time() - t0, nviol, [
        "TLC bounds as in the cfg files named under coverage.tlc",
        "single-node ts-server over HTTP, one server per skeleton; every behaviour in its own database (two retention policies, "
        "measurements m and n), values unique per written row; skeletons A-E: timestamps in one shard group; G, H: three shard "
        "groups two weeks apart, shard-group duration set by the policy DDL (H: SHARD DURATION 1d INDEX DURATION 7d, two shard "
        "groups in one index group); P, Q: wholesale drops in their three steps",
        "two-phase drops: the internal steps (stores delete, catalogue entry removed) cannot be triggered from outside: the replay "
        "WAITS for them (meta GET /getdata, data directories) and issues racing statements back to back right after the mark "
        "(the phase met is recorded, never judged); an early CREATE that meets an already finished deletion is undone",
        "SELECT ... INTO copies go to the witness database; PromQL reads only where the field is a float; SLIMIT is specified as "
        "the first series in tag order",
        f"after an acknowledged statement the matrix is polled for at most {CONV:.0f} s until it equals the expectation (series index "
        "flush ~1-2 s, tag-filter cache invalidation every 10 s, two-phase drops); once converged every later action is judged on "
        "its first answer if that answer contains data the expectation does not",
        "memtable flush only where the behaviour has a Flush (write-cold-duration 1h, forced through /debug/ctrl?mod=flush); compaction "
        "and out-of-order merge are switched off except during a Compact action, where only the out-of-order merge is reachable "
        "within seconds (level compaction needs 8 files, full compaction a 2-minute cold shard)",
        "errors 'measurement not found / is being delete', 'retention policy not found / is being delete', 'database not found' count as "
        "an empty answer",
        "series ids start at the creation second of a database: every database incarnation is padded into an id range of its own so "
        "that the stale delete set kept by pooled index searches (F-C13-3) cannot act between unrelated behaviours; a witness database "
        "with colliding ids and fixed contents shows that defect in a controlled way",
        "DROP SERIES without FROM is rejected by the executor (not acknowledged): the specification expects no change; the same "
        "holds for DROP SERIES with a time bound (InfluxQL has none), DELETE and DROP SHARD (unsupported command)",
    ])
    return nviol


def phase_hist(behaviours):
    out = {}
    for x in behaviours:
        for si, ph in x.phase_seen.items():
            key = f"{x.hist[si]['a']}:{ph}"
            out[key] = out.get(key, 0) + 1
    return out


def run(tier, seed):
    t0 = time.time()
    vserver.build_server()
    sets, stats = gen_behaviours(tier, seed)
    vlib.log(f"[c13] behaviours per skeleton: { {k: len(v) for k, v in sets.items()} }; TLC simulation {time.time() - t0:.1f}s")
    # Mode A and the mutation seeds run while the servers are busy (the replay mostly waits)
    with cf.ThreadPoolExecutor(2) as ex:
        fa = ex.submit(mode_a, tier)
        fs = ex.submit(check_seeds)
        batches = run_batches(sets, seed)
        vlib.log(f"[c13] replay done at {time.time() - t0:.1f}s")
        exh = fa.result()
        seeds = fs.result()
    nviol = report(batches, stats, exh, seeds, tier, seed, t0)
    return 1 if nviol else 0


def replay(path, seed):
    obj = json.load(open(path))
    case = obj["case"]
    seed = obj.get("seed", seed)
    vserver.build_server()
    b = Batch(case["bid"], [case["hist"]], seed, skeleton=case["skeleton"])
    # same concretisation as in the original run
    orig = Behaviour.__init__

    def init(self, batch, idx, hist, s):
        orig(self, batch, case["idx"], hist, s)
    Behaviour.__init__ = init
    try:
        b.run()
    finally:
        Behaviour.__init__ = orig
    if b.infra:
        raise vlib.Infra(str(b.infra))
    x = b.behaviours[0]
    if x.error:
        raise vlib.Infra(str(x.error))
    open_ids = {f["id"] for f in vlib.load_known(PROP)}
    bad = list(x.divs) + [d for d in x.known if not d["known"] <= open_ids]
    if os.environ.get("C13_TRACE"):
        for t in x.stmts:
            vlib.log("   STMT " + t[:300])
    for d in (x.divs + x.known)[:8]:
        vlib.log("   " + describe(d) + (f" known={sorted(d['known'])}" if d["known"] else ""))
    if bad:
        print(f"VIOLATION property={PROP} replay={path}")
        return 1
    print("replay passes" + (" (known findings re-observed)" if x.known else ""))
    return 0
