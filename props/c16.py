"""C16 - the catalogue stays well-formed: disjoint groups, unique ids, valid references.
Mode A: TLC exhaustively checks specs/MetaCatalog.tla (design, Dev = {}) for GroupsDisjointAlignedSorted,
IdsUnique, IdsNeverReused, VersionsNeverReused, RefsValid, DefaultPolicyExists, FailedCommandIsNoop, NoPanic over two bounded
command alphabets (policies / shard groups; databases / measurements / users).
Mode B: TLC-generated behaviours are replayed into the real meta.Data; after every command the return
class and the projected catalogue must equal the specification's, and the same invariants are evaluated on
the real structure. See props/metacat_common.py and harness/cmd/vh/metacat.go."""
import metacat_common as mc

PROP = "C16"

ASSUMPTIONS = [
    "TLC bounds as in the cfg files named under coverage.tlc",
    "real meta.Data driven in process through the exported apply functions of apply_func_base.go (the three handlers that live in "
    "store_fsm.go are mirrored in the harness; the real storeFSM is driven too when the tree carries the verif hook VerifFSM)",
    "one or two partitions per data node (replication only with one), HASH and RANGE sharding without re-sharding, "
    "write-available-first HA policy, node-hard replica distribution, "
    "expand-shards off, retention-autocreate off; schema-clean-enable explored with both values",
    "CreateDatabase is offered only after CreateDbPtView with the same replica number (handlers_process.createDatabase)",
    "4 ticks of the specification = 1 hour; tick 0 is a multiple of 12 hours drawn from the seed; far future / far past = "
    "models.MaxNanoTime / MinNanoTime",
]


def run(tier, seed):
    cfgs = ["MetaCatalog.exh.quick.cfg", "MetaCatalog.exh.admin.quick.cfg"] if tier == "quick" else \
           ["MetaCatalog.exh.thorough.cfg", "MetaCatalog.exh.admin.thorough.cfg"]
    return mc.run_check(PROP, tier, seed, cfgs, ASSUMPTIONS)


def replay(path, seed):
    return mc.replay_file(PROP, path, seed)


def selftest(seed):
    rc = mc.selftest(PROP, mc.SEEDS_C16, "MetaCatalog.exh.quick.cfg", extra_ops=("MarkMeasurementDelete",))
    rc = mc.selftest(PROP, mc.SEEDS_C16_DEEP, "MetaCatalog.exh.quick.cfg", Depth="9", PpnChoices="{1}", Hosts='{"h1"}', RPs='{"r1"}') or rc
    return mc.selftest(PROP, mc.SEEDS_C16_LIFE, "MetaCatalog.exh.admin.quick.cfg") or rc
