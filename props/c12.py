"""C12 — a query shipped to the storage nodes is the query that was planned.
Mode A: TLC checks specs/ExprRoundTrip.tla exhaustively: for every tree the parser can produce
(all 18 binary operators with the precedence table, unary minus, ParenExpr, calls; all trees of 3 node
levels, 4 levels over one operator per precedence level, every literal/identifier class under every
operator) Parse(Print(e)) = e, the parser yields the tree the table prescribes, and only canonical trees.
Mode B: the same trees (+ seeded random deep ones) are exported with the token text that denotes them and
replayed into the real parsers (ParseExpr, sql.y), the printer (String()) and the codecs that carry
expressions to the stores (ProcessorOptions, RemoteQuery, ExprOptions, QuerySchema + logical plan,
Chunk). A divergence of the real code is attributed to an open finding only if the real result equals
exactly what the specification (or, for sort fields, the harness model) predicts under that finding's
as-implemented deviation."""
import concurrent.futures as cf
import json, os, re, shutil, time
import vlib

PROP = "C12"
MODULE = "ExprRoundTripMC"
# deviations the TLA+ specification can predict (constant ImplDev); the others live in the harness
SPEC_DEVS = ["float_int_print", "neg_desugar_mul", "dur_trunc_us", "hand_no_bitwise",
             "yacc_and_or_same_prec", "yacc_int_saturate"]
HARNESS_DEVS = ["sortfield_unquoted"]
# mutation seeds / deviations and the invariant each must break (self-test)
SELFTEST = {"print_drops_paren": "RoundTrip", "right_assoc": "PlanIsTree", "cmp_binds_tighter": "PlanIsTree",
            "float_int_print": "RoundTrip", "neg_desugar_mul": "RoundTrip", "dur_trunc_us": "RoundTrip",
            "hand_no_bitwise": "RoundTrip", "yacc_and_or_same_prec": "RoundTrip", "yacc_int_saturate": "PlanIsTree"}


def open_deviations():
    """deviation name -> finding id, for the open C12 entries of known_findings.json"""
    # VERIF_C12_ASSUME_FIXED=F-C12-5,F-C12-6: validate a candidate fix (tools/mutant.sh <fix.diff> C12) before the
    # entry is moved to "fixed" in known_findings.json; a fixed finding is no longer predicted nor tolerated
    assume = set(filter(None, os.environ.get("VERIF_C12_ASSUME_FIXED", "").split(",")))
    return {f["deviation"]: f["id"] for f in vlib.load_known(PROP) if f.get("deviation") and f["id"] not in assume}


def cfg_with_impldev(name, devs, wd):
    """copy of specs/cfg/<name> whose ImplDev constant is the set of open spec-level deviations"""
    src = open(os.path.join(vlib.SPECS, "cfg", name)).read()
    s = "{" + ", ".join('"%s"' % d for d in devs) + "}"
    out, n = re.subn(r"(?m)^(\s*ImplDev\s*=\s*)\{.*\}\s*$", lambda m: m.group(1) + s, src)
    if n != 1:
        raise vlib.Infra(f"{name}: no ImplDev line")
    p = os.path.join(wd, name)
    open(p, "w").write(out)
    return p


def gen_cases(tier, seed, devs):
    wd = vlib.scratch("c12cfg")
    try:
        if tier == "quick":
            runs = [("struct", "ExprRoundTrip.struct.quick.cfg", {}),
                    ("deep", "ExprRoundTrip.deep.quick.cfg", {}),
                    ("lits", "ExprRoundTrip.lits.cfg", {}),
                    ("sim", "ExprRoundTrip.sim.cfg", dict(simulate=600, depth=5, seed=seed))]
            workers = 5
        else:
            runs = [("struct", "ExprRoundTrip.struct.thorough.cfg", {}),
                    ("deep", "ExprRoundTrip.deep.thorough.cfg", {}),
                    ("struct_q", "ExprRoundTrip.struct.quick.cfg", {}),
                    ("lits", "ExprRoundTrip.lits.cfg", {}),
                    ("sim", "ExprRoundTrip.sim.cfg", dict(simulate=30000, depth=5, seed=seed))]
            workers = 8

        def one(run):
            name, cfg, kw = run
            p = cfg_with_impldev(cfg, devs, wd)
            if "simulate" not in kw:
                kw = dict(kw, workers=workers)
            r = vlib.run_tlc(MODULE, p, timeout=1500, **kw)
            return name, cfg, r

        out = {}
        with cf.ThreadPoolExecutor(len(runs)) as ex:
            for name, cfg, r in ex.map(one, runs):
                vlib.tlc_must_pass(r, cfg)      # Mode A: the design satisfies every invariant
                if not r["traces"]:
                    raise vlib.Infra(f"{cfg}: TLC exported no case")
                out[name] = (cfg, r)
        behaviours, stats = [], {}
        for name, (cfg, r) in out.items():
            stats[name] = {"cfg": cfg, "generated": r["generated"], "distinct": r["distinct"], "depth": r["depth"],
                           "wall_s": round(r["wall_s"], 1), "cases": len(r["traces"])}
            behaviours += r["traces"]
        return behaviours, stats
    finally:
        shutil.rmtree(wd, ignore_errors=True)


def replay_cases(cases):
    vh = vlib.build_vh()
    results, errs = vlib.run_vh_parallel(vh, ["replay-expr"], cases)
    if errs:
        raise vlib.Infra(f"harness process failed: {errs[0]}")
    if len(results) != len(cases):
        raise vlib.Infra(f"harness returned {len(results)} results for {len(cases)} cases")
    return results


def judge(results, devmap):
    """-> (violations, known: dev -> [results])"""
    infra = [r for r in results if r.get("infra")]
    if infra:
        raise vlib.Infra(f"harness infra error: {infra[0]}")
    bad = [r for r in results if not r["ok"]]
    known = {}
    for r in results:
        for d in r.get("known") or []:
            if d not in devmap:          # attributed to something that is not a listed open finding
                if r["ok"]:
                    r["ok"] = False
                    r["detail"] = f"divergence equals the prediction of deviation {d}, which is not an open finding: " + \
                                  (r.get("kdetail") or {}).get(d, "")
                    bad.append(r)
            else:
                known.setdefault(d, []).append(r)
    return bad, known


def run(tier, seed):
    t0 = time.time()
    devmap = open_deviations()
    spec_devs = [d for d in SPEC_DEVS if d in devmap]
    behaviours, stats = gen_cases(tier, seed, spec_devs)
    cases = [{"id": i, "seed": seed, "hist": h} for i, h in enumerate(behaviours)]
    results = replay_cases(cases)
    bad, known = judge(results, devmap)
    for d in sorted(known, key=lambda d: devmap[d]):
        rs = known[d]
        # the shortest example, preferably from a case where no other deviation is involved
        exs = [(len([k for k in (r.get("known") or []) if k != d and k not in HARNESS_DEVS]) > 0,
                len(r["kdetail"][d]), r["kdetail"][d]) for r in rs if (r.get("kdetail") or {}).get(d)]
        ex = min(exs)[2] if exs else ""
        print(f"KNOWN-FINDING: property={PROP} {devmap[d]} ({d}) re-observed in {len(rs)} cases, e.g. {ex[:500]}")
    unobs = {}
    for r in results:
        for d in r.get("unobs") or []:
            unobs[d] = unobs.get(d, 0) + 1
    for d, n in sorted(unobs.items()):
        vlib.log(f"[note] deviation {d} predicted a divergence in {n} cases that the real code did not show (finding fixed?)")
    byid = {c["id"]: c for c in cases}
    for r in bad[:5]:
        path = vlib.save_replay(PROP, {"case": byid[r["id"]], "result": r})
        print(f"VIOLATION property={PROP} replay={path}")
        vlib.log(r.get("detail", ""))
    tot = {}
    for r in results:
        for k, v in (r.get("stats") or {}).items():
            tot[k] = tot.get(k, 0) + v
    distinct = len({json.dumps(h[0]["exp"], sort_keys=True) for h in behaviours})
    exh = [s for n, s in stats.items() if n != "sim"]
    cov = {
        "states": sum(s["distinct"] for s in exh), "transitions": sum(s["generated"] for s in exh),
        "traces_validated_against_impl": len(results),
        "samples": [behaviours[0][0], behaviours[-1][0]] if behaviours else [],
        "exhaustive": True,
        "evaluations": len(results), "distinct_nontrivial": distinct,
        "rule": "cases = expression trees of ExprRoundTrip.tla (every producible tree within the bounds of the struct/deep/lits "
                "cfgs + seeded random trees of depth <= 5); distinct = distinct trees; every case is parsed by the real "
                "parser(s), printed, re-parsed and pushed through the shipping codecs",
        "tlc": stats,
        "harness": tot,
        "known_finding_cases": {devmap[d]: len(rs) for d, rs in known.items()},
        "predicted_but_not_observed": unobs,
    }
    vlib.write_evidence(PROP, tier, seed, "model_checking", cov, time.time() - t0, len(bad), [
        "TLC bounds as in the cfg files named under coverage.tlc; literal and identifier CLASSES of the spec are given "
        "concrete texts per occurrence from the seed",
        "trees outside the statement grammar (sql.y) are replayed through ParseExpr only",
        "unary minus has no node in the real AST: Neg(x) of the spec is compared with the product (-1 * x) the parsers build",
        "the statement scanner keeps the escape of '/' inside a regex pattern; that pattern is compared as it is",
        "QuerySchema/plan codec only for expressions the planner accepts as a field; plan = series/index-scan/exchange",
    ])
    return 1 if bad else 0


def replay(path, seed):
    obj = json.load(open(path))
    res = replay_cases([obj["case"]])
    bad, known = judge(res, open_deviations())
    r = res[0]
    if bad:
        print(f"VIOLATION property={PROP} replay={path}")
        vlib.log(r.get("detail", ""))
        return 1
    print("replay passes" + (f" (attributed to {sorted(known)})" if known else ""))
    return 0


def selftest(seed):
    """every deviation / mutation seed of the specification must give a TLC counterexample"""
    rc = 0
    for d, inv in SELFTEST.items():
        cfg = f"ExprRoundTrip.dev.{d}.cfg"
        r = vlib.run_tlc(MODULE, cfg, workers=4, timeout=600)
        ok = r["violated"] == inv
        print(f"selftest Dev={{{d}}}: TLC reports {r['violated']} violated ({r['distinct']} states) -> {'ok' if ok else 'NOT DETECTED'}")
        if not ok:
            rc = 2
    return rc
