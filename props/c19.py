"""C19 - with authentication on, no endpoint acts without sufficient credentials.
Mode A: TLC exhaustively checks specs/Auth.tla (users / privileges / databases; the request MECHANISM - wrapper,
        ParseCredentials, Authenticate, per-route authorisation, per-statement RequiredPrivileges - against the
        declarative ENTITLEMENT) for NoActionWithoutPrivilege, NoPartialEffect, ListingsFiltered,
        NoDanglingPrivilege and the action properties GrantRevokeExact, OthersKeepPrivileges; every deviation
        name must give a counterexample.
Mode B: (1) the LIVE route table is taken from the running code (`vh routes`: sql.NewServer -> httpd handler ->
        verif hook VerifRoutes, in the basic and the log-keeper configuration) and every route x method must be
        mapped to a route class of the specification, else the run fails;
        (2) MATRIX: TLC enumerates every request (route class | statement kind) x credential class x transport x
        database from the fixed privilege table; each is concretised into real HTTP requests against real
        single-node servers (auth-enabled, administrator created first) for the concrete routes / statements of its
        class; status, disclosed secrets and the catalogue / data seen by the administrator afterwards are compared
        with the specification's outcome;
        (3) SEQUENCES: TLC simulates behaviours of administrator actions (CREATE/DROP USER, SET PASSWORD,
        GRANT/REVOKE, DROP/CREATE DATABASE) interleaved with requests; each is replayed in its own name space;
        after every administrator action the whole (user, database) x (read, write) matrix is probed.
Divergences are attributed to an open finding only when the real outcome equals the prediction of the finding's
deviation (ImplDev of the specification) for a request the deviation fires on."""
import base64, hashlib, hmac, json, os, random, re, struct, subprocess, sys, time, urllib.error, urllib.parse, urllib.request
import concurrent.futures as cf
import contextlib, threading
import vlib
os.environ.setdefault("JAVA_TOOL_OPTIONS", "-Xmx2g")      # (several TLC runs side by side on a shared machine)
sys.path.insert(0, os.path.join(vlib.ROOT, "tools"))
import vserver

PROP = "C19"
SECRET = "c19-shared-secret"
IMPL_DEV = ["unwrapped_failpoint", "unwrapped_debug", "unwrapped_expvar", "unwrapped_runtimecfg", "noauthz_createdb",
            "noauthz_logkeeper", "user_slot_alias", "cache_hit_skips_authz", "reject_then_continue", "noauthz_sideport"]
NONDETERMINISTIC = {"user_slot_alias"}     # a race: re-observed by chance, never required
SEEDS = {  # mutation seeds: deviation -> properties one of which TLC must report violated
    "readonly_may_write": {"NoActionWithoutPrivilege", "NoPartialEffect", "GrantRevokeExact"},
    "url_creds_unchecked": {"NoActionWithoutPrivilege", "NoPartialEffect"},
    "unknown_user_anonymous": {"NoActionWithoutPrivilege", "NoPartialEffect"},
    "other_db_priv_honoured": {"NoActionWithoutPrivilege", "NoPartialEffect", "GrantRevokeExact"},
    "explicit_db_ignored": {"NoActionWithoutPrivilege", "NoPartialEffect"},
    "lazy_multi_stmt": {"NoPartialEffect", "NoActionWithoutPrivilege"},
    "stale_password_accepted": {"NoActionWithoutPrivilege", "NoPartialEffect"},
    "bearer_unsigned": {"NoActionWithoutPrivilege", "NoPartialEffect"},
    "dropped_db_priv_survives": {"NoDanglingPrivilege", "OthersKeepPrivileges"},
    "grant_all_dbs": {"GrantRevokeExact"},
    "listing_unfiltered": {"ListingsFiltered"},
    "unwrapped_failpoint": {"NoActionWithoutPrivilege", "NoPartialEffect"},
    "unwrapped_debug": {"NoActionWithoutPrivilege", "NoPartialEffect"},
    "unwrapped_expvar": {"NoActionWithoutPrivilege", "NoPartialEffect"},
    "unwrapped_runtimecfg": {"NoActionWithoutPrivilege", "NoPartialEffect"},
    "noauthz_createdb": {"NoActionWithoutPrivilege", "NoPartialEffect"},
    "noauthz_logkeeper": {"NoActionWithoutPrivilege", "NoPartialEffect", "ListingsFiltered"},
    "user_slot_alias": {"NoActionWithoutPrivilege", "NoPartialEffect"},
    "cache_hit_skips_authz": {"NoActionWithoutPrivilege", "NoPartialEffect"},      # (Auth.exh.cache.cfg: privileged user fills, unprivileged user hits)
    "reject_then_continue": {"NoActionWithoutPrivilege", "NoPartialEffect"},       # (Auth.exh.ports.cfg)
    "noauthz_sideport": {"NoActionWithoutPrivilege", "NoPartialEffect"},           # (Auth.exh.ports.cfg)
}
SEED_CFG = {"user_slot_alias": "Auth.exh.race.cfg", "cache_hit_skips_authz": "Auth.exh.cache.cfg", "reject_then_continue": "Auth.exh.ports.cfg",
            "noauthz_sideport": "Auth.exh.ports.cfg"}      # deviations that need a configuration of their own
ALL_CLASSES = ["ping", "preflight", "query", "write", "read", "fence", "metrics", "createdb", "control", "failpoint", "pprof",
               "debugquery", "expvar", "runtimecfg", "flux", "lk_mgmt", "lk_list", "lk_show", "lk_write", "lk_query", "lk_consume",
               "lk_noop", "cread", "m_internals", "m_control", "m_stats", "s_stats"]
SIDE_CLASSES = {"m_internals": "meta", "m_control": "meta", "m_stats": "meta", "s_stats": "store"}      # route class -> server role (port)
PORTS_CLASSES = set(SIDE_CLASSES) | {"cread"}      # played on the server that carries the side ports and the response cache
LK_CLASSES = {"lk_mgmt", "lk_list", "lk_show", "lk_write", "lk_query", "lk_consume", "lk_noop"}
ALL_KINDS = ["sel", "sel_into", "show_in", "show_dbs", "delete", "drop_rp", "create_db", "drop_db", "create_rp", "user_admin",
             "root_show", "root_ddl"]


# ---------------------------------------------------------------------------------------------------
# small codecs (no third-party modules): protobuf, snappy block format, JWT HS256

def _varint(n):
    n &= (1 << 64) - 1
    out = bytearray()
    while True:
        b = n & 0x7F
        n >>= 7
        if n:
            out.append(b | 0x80)
        else:
            out.append(b)
            return bytes(out)


def _ld(field, payload):
    return _varint(field << 3 | 2) + _varint(len(payload)) + payload


def _vi(field, n):
    return _varint(field << 3) + _varint(n)


def prom_write_request(series):
    """series: [(labels dict, [(value, ts_ms)])] -> prompb.WriteRequest bytes"""
    out = b""
    for labels, samples in series:
        ts = b""
        for k in sorted(labels):
            ts += _ld(1, _ld(1, k.encode()) + _ld(2, labels[k].encode()))
        for v, t in samples:
            ts += _ld(2, _varint(1 << 3 | 1) + struct.pack("<d", float(v)) + _vi(2, t))
        out += _ld(1, ts)
    return out


def prom_read_request(metric, start_ms, end_ms):
    m = _vi(1, 0) + _ld(2, b"__name__") + _ld(3, metric.encode())
    q = _vi(1, start_ms) + _vi(2, end_ms) + _ld(3, m)
    return _ld(1, q)


def snappy_encode(data):
    out = bytearray(_varint(len(data)))
    for i in range(0, len(data), 60):
        chunk = data[i:i + 60]
        out.append((len(chunk) - 1) << 2)
        out += chunk
    return bytes(out)


def snappy_decode(buf):
    """block format; returns b'' on malformed input"""
    try:
        n = shift = i = 0
        while True:
            b = buf[i]
            i += 1
            n |= (b & 0x7F) << shift
            if not b & 0x80:
                break
            shift += 7
        out = bytearray()
        while i < len(buf):
            tag = buf[i]
            i += 1
            t = tag & 3
            if t == 0:
                ln = tag >> 2
                if ln >= 60:
                    nb = ln - 59
                    ln = int.from_bytes(buf[i:i + nb], "little")
                    i += nb
                ln += 1
                out += buf[i:i + ln]
                i += ln
                continue
            if t == 1:
                ln = ((tag >> 2) & 7) + 4
                off = ((tag >> 5) << 8) | buf[i]
                i += 1
            elif t == 2:
                ln = (tag >> 2) + 1
                off = int.from_bytes(buf[i:i + 2], "little")
                i += 2
            else:
                ln = (tag >> 2) + 1
                off = int.from_bytes(buf[i:i + 4], "little")
                i += 4
            for _ in range(ln):
                out.append(out[-off])
        return bytes(out)
    except Exception:
        return b""


def _b64u(b):
    return base64.urlsafe_b64encode(b).rstrip(b"=").decode()


def jwt_hs256(claims, secret, alg="HS256"):
    """alg HS256 / HS384: an HMAC keyed with the secret (the server accepts the HMAC family); none: no signature at all"""
    h = _b64u(json.dumps({"alg": alg, "typ": "JWT"}, separators=(",", ":")).encode())
    p = _b64u(json.dumps(claims, separators=(",", ":")).encode())
    if alg == "none":
        return f"{h}.{p}."
    sig = hmac.new(secret.encode(), f"{h}.{p}".encode(), hashlib.sha384 if alg == "HS384" else hashlib.sha256).digest()
    return f"{h}.{p}.{_b64u(sig)}"


# ---------------------------------------------------------------------------------------------------
# the server

START_LOCK = threading.Lock()


class AuthServer(vserver.Server):
    """ts-server with auth-enabled = true; the administrator is created first (the only request an empty user
    table lets through), then the server is waited for with his credentials"""

    def __init__(self, seed, logkeeper=False, name="c19", store_port=False):
        self.admin = ("admin", f"Adm1n#Root_{seed}x")
        self.logkeeper = logkeeper
        self.store_proc = None
        self.store_addr = None
        # every role's HTTP port asks for credentials: [http] the SQL port, [meta] the meta port, [data.ops-monitor] the
        # store's; the response cache of the Prometheus range queries is on (answers older than a minute are cached)
        extra = {"http": {"auth-enabled": "true", "shared-secret": f'"{SECRET}"', "pprof-enabled": "true"},
                 "meta": {"auth-enabled": "true"},
                 "coordinator": {"rp-limit": "100000"},      # (default: 100 retention policies in total)
                 "http.result-cache": {"result-cache-enabled": "true", "max-cache-freshness": '"1m"', "cache-type": "0",
                                       "split-queries-by-interval": '"24h"', "memcache-size": "102400", "memcache-expiration": '"30m"'},
                 "data.ops-monitor": {"store-http-addr": '"127.0.0.1:@P9@"', "auth-enabled": "true"}}
        if logkeeper:
            extra["common"] = {"product-type": '"logkeeper"'}
        with START_LOCK:      # (port blocks are probed and bound a moment later: one server at a time)
            super().__init__(extra_conf=extra, start=False, name=name)
            for attempt in range(5):
                self.patch_conf()
                try:
                    self.start()
                    break
                except vlib.Infra as ex:
                    if "address already in use" not in str(ex) or attempt == 4:
                        self.stop()
                        raise
                    self.kill()
                    self.base = vserver._free_port_block()
                    self.port = self.base + 3
                    self.url = f"http://127.0.0.1:{self.port}"
                    self._write_conf()
            if store_port:
                try:
                    self.open_store_port()
                except BaseException:
                    self.stop()
                    raise

    def stop(self):
        if self.store_proc is not None:
            try:
                self.store_proc.stdin.close()
                self.store_proc.wait(timeout=10)
            except Exception:
                self.store_proc.kill()
            self.store_proc = None
        super().stop()

    # ---- the HTTP ports of the three roles -----------------------------------------------------------
    def role_url(self, role):
        if role in (None, "sql"):
            return self.url
        if role == "meta":
            return f"http://127.0.0.1:{self.base + 1}"
        if role == "store":
            if self.store_addr is None:
                raise vlib.Infra("the store role's HTTP port was not opened on this server")
            return "http://" + self.store_addr
        raise vlib.Infra(f"unknown server role {role}")

    def listening(self):
        """-> the loopback TCP ports the server process listens on (from /proc: the running process, not the configuration)"""
        pid = self.proc.pid
        inodes = set()
        try:
            for fd in os.listdir(f"/proc/{pid}/fd"):
                try:
                    t = os.readlink(f"/proc/{pid}/fd/{fd}")
                except OSError:
                    continue
                if t.startswith("socket:["):
                    inodes.add(t[8:-1])
        except OSError as ex:
            raise vlib.Infra(f"cannot read the sockets of the server process: {ex}")
        ports = set()
        for f in ("/proc/net/tcp", "/proc/net/tcp6"):
            try:
                lines = open(f).read().splitlines()[1:]
            except OSError:
                continue
            for ln in lines:
                c = ln.split()
                if c[3] == "0A" and c[9] in inodes:
                    ports.add(int(c[1].rsplit(":", 1)[1], 16))
        return sorted(ports)

    def speaks_http(self, port):
        """does the port answer an HTTP request (any status)?"""
        import socket
        try:
            with socket.create_connection(("127.0.0.1", port), timeout=3) as sk:
                sk.settimeout(3)
                sk.sendall(b"GET /c19-port-probe HTTP/1.0\r\nHost: x\r\n\r\n")
                data = sk.recv(64)
        except Exception:
            return False
        return data.startswith(b"HTTP/1.")

    def open_store_port(self):
        """The store role's HTTP service (app/ts-store/run/service.go) is constructed by ts-store / ts-server but never
        opened in this tree (the configured port does not listen).  It is opened from the same exported constructors in
        the harness (vh sideport-store) on the port the configuration names, with the user table of the live catalogue."""
        port = self.base + 9
        if self.store_proc is not None:          # (again: the user table of the catalogue has changed)
            try:
                self.store_proc.stdin.close()
                self.store_proc.wait(timeout=10)
            except Exception:
                self.store_proc.kill()
            self.store_proc = None
        self.store_conf_listens = port in self.listening()
        if self.store_conf_listens:          # (a tree that opens the service itself: probe the real one)
            self.store_addr = f"127.0.0.1:{port}"
            return
        st, body, _ = self.raw("GET", "/getdata", {"parts": "Users"}, headers=basic_header(self.admin), port="meta")
        if st != 200:
            raise vlib.Infra(f"meta port /getdata as the administrator: {st} {body[:200]!r}")
        users = json.loads(body)["Users"]
        uf = os.path.join(self.dir, "store-users.json")
        json.dump(users, open(uf, "w"))
        vh = vlib.build_vh()
        env = dict(os.environ, HOME=self.dir)
        self.store_proc = subprocess.Popen([vh, "sideport-store", "-addr", f"127.0.0.1:{port}", "-users", uf], stdin=subprocess.PIPE,
                                           stdout=subprocess.PIPE, stderr=open(os.path.join(self.dir, "sideport.log"), "ab"), env=env,
                                           cwd=self.dir, start_new_session=True)
        line = self.store_proc.stdout.readline()
        while line and b"READY" not in line:
            line = self.store_proc.stdout.readline()
        if b"READY" not in line:
            raise vlib.Infra("vh sideport-store did not come up: " + open(os.path.join(self.dir, "sideport.log")).read()[-1500:])
        self.store_addr = f"127.0.0.1:{port}"
        self.store_users = len(users)

    def _write_conf(self):
        om = self.extra.get("data.ops-monitor")
        if om:
            om["store-http-addr"] = f'"127.0.0.1:{self.base + 9}"'
        super()._write_conf()

    def patch_conf(self):
        # the runtime-config service registers GET /runtime_config
        rc = os.path.join(self.dir, "runtime.yaml")
        open(rc, "w").write("overrides: {}\n")
        conf = open(self.conf).read().replace("[runtime-config]\n  enabled = false",
                                              f'[runtime-config]\n  enabled = true\n  load-path = "{rc}"\n  reload-period = "1h"')
        open(self.conf, "w").write(conf)

    def start(self, wait=240):
        env = dict(os.environ)
        env["HOME"] = self.dir
        self.log = open(os.path.join(self.dir, "stdout.log"), "ab")
        self.proc = subprocess.Popen([self.bin, "-config", self.conf], stdout=self.log, stderr=subprocess.STDOUT, env=env,
                                     cwd=self.dir, start_new_session=True)
        t0 = time.time()
        while time.time() - t0 < wait:
            if self.proc.poll() is not None:
                raise vlib.Infra("ts-server exited at start:\n" + self.tail_log())
            try:
                with urllib.request.urlopen(self.url + "/ping", timeout=1) as r:
                    if r.status in (200, 204):
                        break
            except Exception:
                time.sleep(0.2)
        else:
            raise vlib.Infra("ts-server did not answer /ping:\n" + self.tail_log())
        last = None
        while time.time() - t0 < wait:
            try:
                st, body = self.http("POST", "/query", {"q": f"CREATE USER {self.admin[0]} WITH PASSWORD '{self.admin[1]}' WITH ALL PRIVILEGES"},
                                     auth=self.admin)
                last = (st, body)
                if st == 200 and '"error"' not in body:
                    st, body = self.http("GET", "/query", {"q": "show databases"}, auth=self.admin)
                    if st == 200 and '"error"' not in body:
                        return
            except Exception as ex:   # noqa
                last = ex
            time.sleep(0.3)
        raise vlib.Infra(f"ts-server not ready for the administrator: {last}\n" + self.tail_log())

    def why_dead(self):
        try:
            txt = open(os.path.join(self.dir, "stdout.log"), "rb").read().decode(errors="replace")
        except Exception:
            return ""
        i = max(txt.find("panic:"), txt.find("fatal error:"), txt.find("SIGSEGV"))
        return f"(exit status {self.proc.poll() if self.proc else None}) " + (txt[max(0, i - 200): i + 2500] if i >= 0 else txt[-2500:])

    def raw(self, method, path, params=None, body=None, headers=None, timeout=120, port=None):      # (a shared machine: load averages of several hundred)
        """-> (status, body bytes, headers); port = the role whose HTTP port is asked (default: sql)"""
        url = self.role_url(port) + path
        if params:
            url += "?" + urllib.parse.urlencode(params, doseq=True)
        data = body.encode() if isinstance(body, str) else body
        req = urllib.request.Request(url, data=data, method=method)
        for k, v in (headers or {}).items():
            req.add_header(k, v)
        for attempt in range(3):
            try:
                with urllib.request.urlopen(req, timeout=timeout) as r:
                    return r.status, r.read(), dict(r.headers)
            except urllib.error.HTTPError as e:
                return e.code, e.read(), dict(e.headers)
            except (ConnectionError, urllib.error.URLError, TimeoutError) as ex:
                last = ex
                if not self.alive():
                    raise vlib.Infra("ts-server died:\n" + self.why_dead())
                time.sleep(0.3)
        raise vlib.Infra(f"request failed: {method} {path}: {last}")

    def aq(self, q, db=None, post=False):
        """administrator query -> list of statement results"""
        p = {"q": q}
        if db:
            p["db"] = db
        st, body, _ = self.raw("POST" if post else "GET", "/query", p, headers=basic_header(self.admin))
        if st != 200:
            raise vlib.Infra(f"administrator query refused ({st}): {q[:200]}: {body[:300]!r}")
        try:
            res = json.loads(body).get("results", [])
        except Exception:
            raise vlib.Infra(f"administrator query: unparsable answer to {q[:200]}: {body[:300]!r}")
        n = q.count(";") + 1
        out = [{} for _ in range(n)]                        # (a statement without any result is left out of the answer)
        for r in res:
            if 0 <= r.get("statement_id", 0) < n:
                out[r.get("statement_id", 0)] = r
        return out

    def addl(self, q, ok_errors=(), tries=1, wait=0.5):
        """administrator DDL; returns the error text ('' = done)"""
        err = ""
        for i in range(tries):
            res = self.aq(q, post=True)
            err = next((r.get("error", "") for r in res if r.get("error")), "")
            if not err or any(e in err for e in ok_errors):
                return ""
            time.sleep(wait)
        return err


def basic_header(auth):
    return {"Authorization": "Basic " + base64.b64encode(f"{auth[0]}:{auth[1]}".encode()).decode()}


def values_of(res, col=0):
    return [v[col] for s in (res.get("series") or []) for v in s.get("values", [])]


# ---------------------------------------------------------------------------------------------------
# the world behind one behaviour / one matrix run: concrete names, passwords, secrets

class World:
    def __init__(self, srv, ns, users=("u1", "u2", "u3")):
        self.srv, self.ns = srv, ns
        self.users = list(users)
        self.db = {"db1": f"c19{ns}a", "db2": f"c19{ns}b"}
        self.uname = {u: f"c19{ns}{u}" for u in users}
        self.uname["admin"] = srv.admin[0]
        self.uname["ghost"] = f"c19{ns}ghost"
        self.pwv = {u: 0 for u in users}
        self.lastv = {u: 1 for u in users}     # password version a dropped user had
        self.vic, self.hid = f"c19{ns}vic", f"c19{ns}hid"      # victim of user administration; a user no request names
        self.vicrp = "c19rpv"
        self.tok_rows = {d: f"rsec{ns}{d[-1]}" for d in self.db}    # secret in the data of the database
        self.tok_cat = {d: f"c19cat{ns}{d[-1]}" for d in self.db}   # secret in its catalogue (a measurement name)
        self._mk = 0
        self.ndel, self.del_next, self.rpx = 0, {}, {}
        self.lk = srv.logkeeper
        self.ls = "c19ls"                                          # log stream (= retention policy) of the repositories
        # the cacheable read: samples three hours old (older than max-cache-freshness); the response cache is keyed by the
        # request text, so the key of the specification (one per database) is a label matcher that every request of one
        # behaviour shares (cache_ns set) and that is fresh for every request otherwise (the matrix: always a miss)
        self.old_t0 = (int(time.time()) - 3 * 3600) // 60 * 60
        self.cache_ns = None
        self.cread_family = 0                                     # which of the cacheable routes a behaviour uses
        self.side = False                                         # the facts include the switches of the meta port

    def ckey(self, d):
        return f"{self.cache_ns}{d}" if self.cache_ns else f"u{self.mk()}"

    def old_range(self):
        return {"start": str(self.old_t0), "end": str(self.old_t0 + 1740), "step": "60"}

    def mk(self):
        self._mk += 1
        return self._mk

    def pw(self, u, v):
        if u == "admin":
            return self.srv.admin[1] if v == "cur" else ("Old#Adm1n_pw" if v == "old" else "Bad#Adm1n_pw")
        if u == "ghost":
            return "Gh0st#Pass_" + v
        if v == "bad":
            return "Wr0ng#Pass_x"
        n = self.pwv[u] if v == "cur" else self.pwv[u] - 1
        if n < 1:
            return "N0#such_pw" if v == "old" else f"Pw{self.lastv[u]}#{u}x{self.ns}Z"     # never-set / dropped user's last password
        return f"Pw{n}#{u}x{self.ns}Z"

    def pw_n(self, u, n):
        return f"Pw{n}#{u}x{self.ns}Z"

    # ---- fixture -----------------------------------------------------------------------------------
    def now_ns(self):
        return int(time.time()) * 10 ** 9

    def seed_db(self, d):
        """the data every database carries: secret rows, a secret measurement name, the victims of deletions"""
        D = self.db[d]
        s = self.srv
        if self.lk:
            return      # (a line-protocol write into a log-keeper repository kills the store: nil index builder; not needed there)
        ts = self.now_ns()
        lines = [f"c19m,host={self.tok_rows[d]} v=1i {ts}", f"{self.tok_cat[d]},k=x v=1i {ts}", f"c19del,k=a v=1i {ts}"]
        lines += [f"c19del_{i},k=a v=1i {ts}" for i in range(self.ndel)]
        for attempt in range(40):
            st, body, _ = s.raw("POST", "/write", {"db": D}, "\n".join(lines), basic_header(s.admin))
            if st == 204:
                break
            time.sleep(0.5)
        else:
            raise vlib.Infra(f"fixture write refused: {st} {body[:200]!r}")
        pb = snappy_encode(prom_write_request([({"__name__": "c19metric", "job": self.tok_rows[d]}, [(1.5, ts // 10 ** 6)])]))
        s.raw("POST", "/api/v1/write", {"db": D}, pb, {**basic_header(s.admin), "Content-Encoding": "snappy", "Content-Type": "application/x-protobuf"})
        old = [(float(i), (self.old_t0 + 60 * i) * 1000) for i in range(30)]
        pb = snappy_encode(prom_write_request([({"__name__": "c19old", "job": self.tok_rows[d]}, old)]))
        for attempt in range(40):
            st, body, _ = s.raw("POST", "/api/v1/write", {"db": D}, pb, {**basic_header(s.admin), **PROM_HDR})
            if st == 204:
                break
            time.sleep(0.5)
        else:
            raise vlib.Infra(f"fixture write of old samples refused: {st} {body[:200]!r}")
        err = s.addl(f'CREATE RETENTION POLICY {self.vicrp} ON "{D}" DURATION 3d REPLICATION 1', ok_errors=("already exists",), tries=20)
        if err:
            raise vlib.Infra(f"fixture retention policy: {err}")

    def wait_visible(self, ds, bound=40):
        s = self.srv
        if self.lk:
            return
        t0 = time.time()
        while True:
            res = s.aq("; ".join(f'select count(v) from "{self.db[d]}".autogen.c19m; select count(v) from "{self.db[d]}".autogen.c19del' for d in ds))
            if all(values_of(r, 1) == [1] for r in res) and all(self.old_visible(d) for d in ds):
                return
            if time.time() - t0 > bound:
                raise vlib.Infra(f"fixture rows did not become visible within {bound}s: {res}")
            time.sleep(0.4)

    def old_visible(self, d):
        """the old samples answer a range query (asked with Cache-Control: no-store: nothing is left in the response cache)"""
        st, body, _ = self.srv.raw("GET", "/api/v1/query_range", {"db": self.db[d], "query": "c19old", **self.old_range()},
                                   headers={**basic_header(self.srv.admin), "Cache-Control": "no-store"})
        return st == 200 and self.tok_rows[d].encode() in body

    def meta_flags(self):
        """the switches and the snapshot index of the meta node, as its HTTP port shows them to the administrator"""
        s = self.srv
        out = set()
        st, body, _ = s.raw("GET", "/getdata", {"parts": "TakeOverEnabled,BalancerEnabled"}, headers=basic_header(s.admin), port="meta")
        try:
            for k, v in sorted(json.loads(body).items()):
                out.add(f"meta:{k}:{v}")
        except Exception:
            out.add(f"meta:!{st}")
        st, body, _ = s.raw("GET", "/debug", {"witch": "raft-stat"}, headers=basic_header(s.admin), port="meta")
        try:
            for node, m in json.loads(body).items():
                out.add(f"meta:snapshot:{m.get('last_snapshot_index')}")
        except Exception:
            out.add(f"meta:snapshot:!{st}")
        return out

    def create_db(self, d):
        D = self.db[d]
        if self.lk:
            for attempt in range(120):
                st, body, _ = self.srv.raw("POST", f"/api/v1/repository/{D}", None, None, basic_header(self.srv.admin))
                if st == 200:
                    break
                time.sleep(0.5)
            else:
                raise vlib.Infra(f"create repository {D}: {st} {body[:200]!r}")
            st, body, _ = self.srv.raw("POST", f"/api/v1/logstream/{D}/{self.ls}", None, '{"ttl":7}', basic_header(self.srv.admin))
            if st != 200:
                raise vlib.Infra(f"create logstream {D}/{self.ls}: {st} {body[:200]!r}")
        else:
            err = self.srv.addl(f'CREATE DATABASE "{D}"', tries=240, wait=0.5)
            if err:
                raise vlib.Infra(f"create database {D}: {err}")

    def setup_matrix(self, ndel):
        """the fixed privilege table of Auth.tla (Fixture = TRUE): u1 read-only on db1, u2 write-only on db1,
        u3 everything on db2; every user had one SET PASSWORD (so that an old password exists)"""
        self.ndel = ndel
        s = self.srv
        for d in self.db:
            self.create_db(d)
        for d in self.db:
            self.seed_db(d)
        for u in self.users:
            self.root("CreateUser", {"u": u})
            self.root("SetPassword", {"u": u})
        for u, d, p in (("u1", "db1", "read"), ("u2", "db1", "write"), ("u3", "db2", "all")):
            if u in self.users:
                self.root("Grant", {"u": u, "d": d, "p": p})
        for name, grants in ((self.vic, [("READ", "db2")]), (self.hid, [])):
            err = s.addl(f"CREATE USER {name} WITH PASSWORD 'V1c#tim_{self.ns}Q'")
            if err:
                raise vlib.Infra(f"fixture user {name}: {err}")
            for p, d in grants:
                s.addl(f'GRANT {p} ON "{self.db[d]}" TO {name}')
        self.wait_visible(list(self.db))

    # ---- administrator actions of the specification --------------------------------------------------
    def root(self, a, args):
        s = self.srv
        u = args.get("u")
        name = self.uname.get(u)
        if a == "CreateUser":
            err = s.addl(f"CREATE USER {name} WITH PASSWORD '{self.pw_n(u, 1)}'")
            self.pwv[u] = 1
        elif a == "DropUser":
            err = s.addl(f"DROP USER {name}")
            self.lastv[u], self.pwv[u] = max(1, self.pwv[u]), 0
        elif a == "SetPassword":
            self.pwv[u] += 1
            err = s.addl(f"SET PASSWORD FOR {name} = '{self.pw_n(u, self.pwv[u])}'")
        elif a == "Grant":
            err = s.addl(f'GRANT {args["p"].upper()} ON "{self.db[args["d"]]}" TO {name}')
        elif a == "Revoke":
            err = s.addl(f'REVOKE {args["p"].upper()} ON "{self.db[args["d"]]}" FROM {name}')
        elif a == "SetAdmin":
            q = f"GRANT ALL PRIVILEGES TO {name}" if args["on"] == "on" else f"REVOKE ALL PRIVILEGES FROM {name}"
            err = s.addl(q)
            return "refused" if err else "done"         # the design: always refused
        elif a == "DropDatabase":
            D = self.db[args["d"]]
            err = s.addl(f'DROP DATABASE "{D}"')
            t0 = time.time()
            while not err:
                if D not in values_of(s.aq("show databases")[0]):
                    break
                if time.time() - t0 > 120:
                    raise vlib.Infra(f"database {D} still listed 120 s after DROP DATABASE")
                time.sleep(0.5)
        elif a == "CreateDatabase":
            self.create_db(args["d"])
            self.seed_db(args["d"])
            self.wait_visible([args["d"]])
            err = ""
        else:
            raise vlib.Infra(f"unknown administrator action {a}")
        if err:
            raise vlib.Infra(f"administrator action {a} {args} failed: {err}")
        if self.side and a in ("CreateUser", "DropUser", "SetPassword"):
            self.meta_sync(a, u)
        return "done"

    def meta_sync(self, a, u):
        """the meta node's own view of the user table follows the catalogue within a moment (its metaclient is told
        asynchronously): the action is complete when the meta port knows about it"""
        name = self.uname[u]
        pw = self.pw_n(u, self.lastv[u]) if a == "DropUser" else self.pw(u, "cur")
        t0 = time.time()
        while True:
            st, _, _ = self.srv.raw("GET", "/debug/vars", headers=basic_header((name, pw)), port="meta")
            if (st == 401) == (a == "DropUser"):
                return
            if time.time() - t0 > 10:
                return          # (left to the requests that follow: they report what they see)
            time.sleep(0.1)

    def name_gone(self, name, bound=20):
        """the database disappears from the catalogue (DROP DATABASE marks it, the store removes it within seconds)"""
        t0 = time.time()
        while True:
            if name not in values_of(self.srv.aq("show databases")[0]):
                return True
            if time.time() - t0 > bound:
                return False
            time.sleep(0.5)

    def db_gone(self, d):
        return self.name_gone(self.db[d])

    # ---- what the administrator sees ---------------------------------------------------------------
    def facts(self, dbs=None):
        """catalogue, users and victim data as a set of strings (one multi-statement administrator query)"""
        s = self.srv
        dbs = list(self.db) if dbs is None else dbs
        q = ["show databases", "show users", f"show grants for {self.vic}"]
        for d in dbs:
            D = self.db[d]
            q += [f'show retention policies on "{D}"', f'show measurements on "{D}"', f'show series on "{D}" from c19del']
        res = s.aq("; ".join(q))
        out = set()
        mine = re.compile(r"^c19(x|t|r)?" + re.escape(self.ns))     # (c19sac*: victims made for one request, judged by that request)
        for n in values_of(res[0]):
            if mine.match(n):
                out.add(f"db:{n}")
        for r in res[1].get("series") or []:
            for v in r.get("values") or []:
                if v[0].startswith("c19s" + self.ns) or v[0].startswith("c19" + self.ns) or v[0] == s.admin[0]:
                    out.add(f"user:{v[0]}:{'admin' if v[1] else 'plain'}")
        if res[2].get("error"):
            out.add("grants:" + res[2]["error"][:60])
        for r in res[2].get("series") or []:
            for v in r.get("values") or []:
                out.add(f"grant:{v[0]}:{v[1]}")
        for i, d in enumerate(dbs):
            rp, ms, cnt = res[3 + 3 * i: 6 + 3 * i]
            if rp.get("error"):
                out.add(f"rp:{d}:!{rp['error'][:50]}")
            for r in rp.get("series") or []:
                for v in r.get("values") or []:
                    out.add(f"rp:{d}:{v[0]}:{v[1]}")
            if ms.get("error"):
                out.add(f"mst:{d}:!{ms['error'][:50]}")
            for n in values_of(ms):
                if not n.startswith("c19del_"):
                    out.add(f"mst:{d}:{n}")
            out.add(f"victim:{d}:{cnt.get('error', '')[:50] or values_of(cnt)}")
        # the victim user's password still works
        st, _, _ = s.raw("GET", "/query", {"q": "SHOW DATABASES"}, headers=basic_header((self.vic, f"V1c#tim_{self.ns}Q")))
        out.add(f"viclogin:{st}")
        if self.side:
            out |= self.meta_flags()
        if self.lk:
            st, body, _ = s.raw("GET", "/api/v1/repository", headers=basic_header(s.admin))
            try:
                for n in json.loads(body):
                    if mine.match(n):
                        out.add(f"repo:{n}")
            except Exception:
                out.add(f"repo:!{st}")
            for d in dbs:
                st, body, _ = s.raw("GET", f"/api/v1/logstream/{self.db[d]}", headers=basic_header(s.admin))
                try:
                    for n in json.loads(body):
                        out.add(f"ls:{d}:{n}")
                except Exception:
                    out.add(f"ls:{d}:!{st}")
        return out


# ---------------------------------------------------------------------------------------------------
# concrete probes

class Probe:
    """one concrete HTTP request (without credentials) and what it does when it is carried out"""

    def __init__(self, key, method, path, params=None, body=None, headers=None, adds=(), tokens=(), cleanup=None, setup=None,
                 verify=None, listing=None, authn_only=False, effectful=False, note="", port=None, removes=(), silent=False, snapshot=False):
        self.key, self.method, self.path = key, method, path
        self.port = port               # the server role whose HTTP port is asked (None = the SQL port)
        self.removes = set(removes)    # facts that disappear when the request is carried out
        self.silent = silent           # the handler writes nothing at all (its run shows only in the facts)
        self.snapshot = snapshot       # carried out = the meta node takes a raft snapshot (the snapshot index moves)
        self.params, self.body, self.headers = dict(params or {}), body, dict(headers or {})
        self.adds = set(adds)          # facts that appear when the request is carried out
        self.tokens = list(tokens)     # secrets an answer to an entitled requester carries (bytes)
        self.cleanup, self.setup, self.verify = cleanup, setup, verify
        self.listing = listing         # (parser(body) -> set of abstract database names) for listings
        self.authn_only = authn_only   # needs an external system: only the authentication decision is judged strictly
        self.effectful = effectful     # carries out something the facts cannot show (control): 2xx = carried out
        self.note = note
        self.gone = {}                 # abstract database -> concrete name: dropped when the request is carried out

    def about_gone(self, fact):
        for d, D in self.gone.items():
            if fact.startswith((f"mst:{d}:", f"rp:{d}:", f"victim:{d}:", f"ls:{d}:")) or fact in (f"db:{D}", f"repo:{D}") or fact.startswith(f"grant:{D}:"):
                return True
        return False


PROM_HDR = {"Content-Encoding": "snappy", "Content-Type": "application/x-protobuf"}


def _lp(w, name):
    return f"{name},k=a v=1i {w.now_ns()}"


def _range(w):
    n = int(time.time())
    return {"start": str(n - 900), "end": str(n + 900)}


def _drop_db_cleanup(w, name):
    return lambda: w.srv.addl(f'DROP DATABASE "{name}"')


def route_builders():
    """(pattern, method) -> (route class, builder(w, d, mk) -> Probe).  The patterns are those of the live route table
    (gorilla mux templates); the three prefixes ServeHTTP dispatches itself are keyed with method '*'."""
    T = {}

    def add(pattern, methods, rc, fn):
        for m in methods:
            T[(pattern, m)] = (rc, (lambda fn, m: lambda w, d, mk: fn(w, d, mk, m))(fn, m))

    add("/query", ["GET", "POST"], "query", lambda w, d, mk, m: None)        # concretised by query_probe (statement kinds)
    add("/query", ["OPTIONS"], "preflight", lambda w, d, mk, m: Probe("OPTIONS /query", m, "/query"))
    add("/write", ["OPTIONS"], "preflight", lambda w, d, mk, m: Probe("OPTIONS /write", m, "/write"))
    add("/ping", ["GET", "HEAD"], "ping", lambda w, d, mk, m: Probe(f"{m} /ping", m, "/ping", {"verbose": "true"} if mk % 2 else None))
    add("/status", ["GET", "HEAD"], "ping", lambda w, d, mk, m: Probe(f"{m} /status", m, "/status"))
    add("/write", ["POST"], "write", lambda w, d, mk, m: Probe("POST /write", m, "/write", {"db": w.db[d]}, _lp(w, f"c19w_{mk}"),
                                                                 adds=[f"mst:{d}:c19w_{mk}"]))
    add("/api/v2/write", ["POST"], "write", lambda w, d, mk, m: Probe("POST /api/v2/write", m, "/api/v2/write",
                                                                        {"bucket": w.db[d] + ("/autogen" if mk % 2 else "")},
                                                                        _lp(w, f"c19w_{mk}"), adds=[f"mst:{d}:c19w_{mk}"]))
    add("/api/v1/write", ["POST"], "write", lambda w, d, mk, m: Probe(
        "POST /api/v1/write", m, "/api/v1/write", {"db": w.db[d]},
        snappy_encode(prom_write_request([({"__name__": f"c19pw_{mk}", "job": "x"}, [(1.0, int(time.time() * 1000))])])), PROM_HDR,
        adds=[f"mst:{d}:c19pw_{mk}"]))
    add("/prometheus/{metric_store}/api/v1/write", ["POST"], "write", lambda w, d, mk, m: Probe(
        "POST /prometheus/{}/api/v1/write", m, f"/prometheus/c19ps_{mk}/api/v1/write", {"db": w.db[d]},
        snappy_encode(prom_write_request([({"__name__": "c19metric", "job": "x"}, [(1.0, int(time.time() * 1000))])])), PROM_HDR,
        adds=[f"mst:{d}:c19ps_{mk}"]))
    for sig in ("traces", "metrics", "logs"):
        add(f"/api/v1/otlp/{sig}", ["POST"], "write", (lambda sig: lambda w, d, mk, m: Probe(
            f"POST /api/v1/otlp/{sig}", m, f"/api/v1/otlp/{sig}", {"db": w.db[d]}, b"", {"Content-Type": "application/x-protobuf"},
            note="empty OTLP payload: exercised up to the authorisation decision"))(sig))

    def rr(w):
        n = int(time.time())
        return snappy_encode(prom_read_request("c19metric", (n - 900) * 1000, (n + 900) * 1000))

    for pre, ms in (("/api/v1", ""), ("/prometheus/{metric_store}/api/v1", "/prometheus/c19metric/api/v1")):
        base = ms or "/api/v1"
        add(pre + "/read", ["GET", "POST"], "read", (lambda base: lambda w, d, mk, m: Probe(
            f"{m} {base}/read", m, base + "/read", {"db": w.db[d]}, rr(w), PROM_HDR, tokens=[w.tok_rows[d]]))(base))
        add(pre + "/query", ["GET", "POST"], "read", (lambda base: lambda w, d, mk, m: Probe(
            f"{m} {base}/query", m, base + "/query", {"db": w.db[d], "query": "c19metric", "time": str(int(time.time()))},
            tokens=[w.tok_rows[d]]))(base))
        # (class "read" is the read that is not served from the response cache: Cache-Control: no-store makes the handler
        # bypass it - results_cache.go:shouldCache; the cached path is class "cread" below)
        add(pre + "/query_range", ["GET", "POST"], "read", (lambda base: lambda w, d, mk, m: Probe(
            f"{m} {base}/query_range", m, base + "/query_range", {"db": w.db[d], "query": "c19metric", "step": "60", **_range(w)},
            headers={"Cache-Control": "no-store"}, tokens=[w.tok_rows[d]]))(base))
        add(pre + "/labels", ["GET", "POST"], "read", (lambda base: lambda w, d, mk, m: Probe(
            f"{m} {base}/labels", m, base + "/labels", {"db": w.db[d], **_range(w)}))(base))
        add(pre + "/label/{name}/values", ["GET", "POST"], "read", (lambda base: lambda w, d, mk, m: Probe(
            f"{m} {base}/label/job/values", m, base + "/label/job/values", {"db": w.db[d], **_range(w)}, tokens=[w.tok_rows[d]]))(base))
        add(pre + "/series", ["GET", "POST"], "read", (lambda base: lambda w, d, mk, m: Probe(
            f"{m} {base}/series", m, base + "/series", {"db": w.db[d], "match[]": "c19metric", **_range(w)}, tokens=[w.tok_rows[d]]))(base))
        add(pre + "/metadata", ["GET", "POST"], "read", (lambda base: lambda w, d, mk, m: Probe(
            f"{m} {base}/metadata", m, base + "/metadata", {"db": w.db[d]}))(base))
    add("/fence/match_batch", ["GET"], "fence", lambda w, d, mk, m: Probe("GET /fence/match_batch", m, "/fence/match_batch",
                                                                            {"db": w.db[d], "points": "[1,2]"}, effectful=True))
    add("/fence/delete_fence", ["POST"], "fence", lambda w, d, mk, m: Probe("POST /fence/delete_fence", m, "/fence/delete_fence",
                                                                              {"db": w.db[d], "fenceId": "c19-no-such-fence"}, effectful=True))
    add("/metrics", ["GET"], "metrics", lambda w, d, mk, m: Probe("GET /metrics", m, "/metrics", effectful=True))
    add("/api/v1/tsdb/{tsdb}", ["POST"], "createdb", lambda w, d, mk, m: Probe(
        "POST /api/v1/tsdb/{}", m, f"/api/v1/tsdb/c19t{w.ns}n{mk}", adds=[f"db:c19t{w.ns}n{mk}"], cleanup=_drop_db_cleanup(w, f"c19t{w.ns}n{mk}")))
    add("/debug/ctrl", ["POST"], "control", lambda w, d, mk, m: Probe("POST /debug/ctrl", m, "/debug/ctrl", {"mod": "flush"}, effectful=True))
    add("/backup/status", ["POST"], "control", lambda w, d, mk, m: Probe("POST /backup/status", m, "/backup/status", effectful=True))
    add("/backup/abort", ["POST"], "control", lambda w, d, mk, m: Probe("POST /backup/abort", m, "/backup/abort", effectful=True))
    add("/backup/run", ["POST"], "control", lambda w, d, mk, m: Probe("POST /backup/run", m, "/backup/run", {"isNode": "true", "verif": "c19"},
                                                                       effectful=True))
    add("/failpoint", ["POST"], "failpoint", lambda w, d, mk, m: Probe(
        "POST /failpoint", m, "/failpoint",
        {"point": "c19-no-such-point", "flag": "enable", "term": "return(true)"} if mk % 2 else {"point": "c19-no-such-point", "flag": "disable"},
        effectful=True))
    add("/api/v2/query", ["POST"], "flux", lambda w, d, mk, m: Probe("POST /api/v2/query", m, "/api/v2/query", body='from(bucket:"x")'))
    add("/runtime_config", ["GET"], "runtimecfg", lambda w, d, mk, m: Probe("GET /runtime_config", m, "/runtime_config", effectful=True))
    # prefixes outside the router
    for leaf, q in (("cmdline", None), ("", None), ("goroutine", {"debug": "1"}), ("heap", {"debug": "1"}), ("symbol", None)):
        add("/debug/pprof#" + leaf, ["*"], "pprof", (lambda leaf, q: lambda w, d, mk, m: Probe(
            "GET /debug/pprof/" + leaf, "GET", "/debug/pprof/" + leaf, q, effectful=True))(leaf, q))
    add("/debug/vars", ["*"], "expvar", lambda w, d, mk, m: Probe("GET /debug/vars", "GET", "/debug/vars", effectful=True))
    add("/debug/query", ["*"], "debugquery", lambda w, d, mk, m: Probe("GET /debug/query", "GET", "/debug/query",
                                                                        {"mod": "shards", "db": w.db[d]}, effectful=True))

    # ---- the cacheable read: Prometheus queries over a time range old enough for the response cache ------------
    def oldq(w, d):
        return f'c19old{{job!="{w.ckey(d)}"}}'
    for i, (pre, base) in enumerate((("/api/v1", "/api/v1"), ("/prometheus/{metric_store}/api/v1", "/prometheus/c19old/api/v1"))):
        add(pre + "/query_range#old", ["GET", "POST"], "cread", (lambda base: lambda w, d, mk, m: Probe(
            f"{m} {base}/query_range (old range)", m, base + "/query_range", {"db": w.db[d], "query": oldq(w, d), **w.old_range()},
            tokens=[w.tok_rows[d]]))(base))
        add(pre + "/query#old", ["GET", "POST"], "cread", (lambda base: lambda w, d, mk, m: Probe(
            f"{m} {base}/query (old instant)", m, base + "/query", {"db": w.db[d], "query": oldq(w, d), "time": str(w.old_t0 + 600)},
            tokens=[w.tok_rows[d]]))(base))

    # ---- the HTTP ports of the meta and the store role (keys "<role>:<path>") -----------------------------------
    def side(role, path, methods, rc, fn):
        add(f"{role}:{path}", methods, rc, lambda w, d, mk, m: fn(w, d, mk, m))

    def sp(role, m, path, params=None, **kw):
        return Probe(f"{role} port {m} {path}", m, path, params, port=role, **kw)

    def flag_probe(path, flag):
        def build(w, d, mk, m):
            # the switch is on in the fixture; the request switches it off; the administrator switches it on again
            return sp("meta", m, path, {"open": "false"}, adds=[f"meta:{flag}:False"], removes=[f"meta:{flag}:True"],
                      cleanup=lambda: w.srv.raw("POST", path, {"open": "true"}, headers=basic_header(w.srv.admin), port="meta"))
        return build

    def snap_setup(w):
        # a raft entry of the administrator's: a snapshot request always finds something new to snapshot
        return lambda: w.srv.raw("POST", "/balance", {"open": "true"}, headers=basic_header(w.srv.admin), port="meta")
    side("meta", "/getdata", ["GET"], "m_internals", lambda w, d, mk, m: sp(
        "meta", m, "/getdata", {"nodeStatus": "ok"} if mk % 2 else {"parts": "Users,Databases"}, tokens=["#Ver:", w.hid], effectful=True))
    side("meta", "/debug", ["GET"], "m_internals", lambda w, d, mk, m: sp("meta", m, "/debug", {"witch": "raft-stat"}, tokens=["last_log_index"],
                                                                       effectful=True))
    side("meta", "/analysisCache", ["GET"], "m_internals", lambda w, d, mk, m: sp("meta", m, "/analysisCache", tokens=["lockHolder"], effectful=True))
    side("meta", "/debug/vars", ["GET"], "m_stats", lambda w, d, mk, m: sp(
        "meta", m, "/debug/vars", effectful=True, silent=True, note="no statistics pusher on this server: the handler writes nothing"))
    side("meta", "/takeover", ["POST"], "m_control", flag_probe("/takeover", "TakeOverEnabled"))
    side("meta", "/balance", ["POST"], "m_control", flag_probe("/balance", "BalancerEnabled"))
    side("meta", "/userSnapshot", ["POST"], "m_control", lambda w, d, mk, m: sp(
        "meta", m, "/userSnapshot", {"version": "0" if mk % 2 else "99999"}, effectful=True, setup=snap_setup(w), snapshot=bool(mk % 2)))
    side("meta", "/metaRecover", ["POST"], "m_control", lambda w, d, mk, m: sp("meta", m, "/metaRecover", effectful=True, silent=True, setup=snap_setup(w),
                                                                             snapshot=True))
    side("meta", "/analysisCache", ["POST"], "m_control", lambda w, d, mk, m: sp("meta", m, "/analysisCache", effectful=True))
    side("meta", "/movePt", ["POST"], "m_control", lambda w, d, mk, m: sp("meta", m, "/movePt", {"db": "c19-no-such-db", "ptId": "0", "to": "99"},
                                                                        effectful=True))
    side("meta", "/expandGroups", ["POST"], "m_control", lambda w, d, mk, m: sp("meta", m, "/expandGroups", effectful=True))
    side("meta", "/leadershiptransfer", ["POST"], "m_control", lambda w, d, mk, m: sp("meta", m, "/leadershiptransfer", effectful=True))
    side("meta", "/specialCtlData", ["POST"], "m_control", lambda w, d, mk, m: sp("meta", m, "/specialCtlData", {"cmdDetail": "verif|127.0.0.9"},
                                                                                effectful=True))
    side("meta", "/modifyRepDBMasterPt", ["POST"], "m_control", lambda w, d, mk, m: sp(
        "meta", m, "/modifyRepDBMasterPt", {"db": "c19-no-such-db", "rgId": "0", "newMasterPtId": "0"}, effectful=True))
    side("meta", "/recoverMeta", ["POST"], "m_control", lambda w, d, mk, m: sp("meta", m, "/recoverMeta", {"metaData": "c19-not-json"}, effectful=True))
    side("store", "/debug/vars", ["GET"], "s_stats", lambda w, d, mk, m: sp("store", m, "/debug/vars", effectful=True))

    # ---- log-keeper product -------------------------------------------------------------------------
    def repo_list(body):
        try:
            return set(json.loads(body))
        except Exception:
            return None

    def sac_repo(w, mk, logstream=False):
        """a repository (and log stream) of its own for a request that deletes: created by the administrator"""
        name = f"c19sac{w.ns}n{mk}"

        def setup():
            st, body, _ = w.srv.raw("POST", f"/api/v1/repository/{name}", None, None, basic_header(w.srv.admin))
            if st != 200:
                raise vlib.Infra(f"create repository {name}: {st} {body[:200]!r}")
            if logstream:
                st, body, _ = w.srv.raw("POST", f"/api/v1/logstream/{name}/lsx", None, '{"ttl":7}', basic_header(w.srv.admin))
                if st != 200:
                    raise vlib.Infra(f"create logstream {name}/lsx: {st} {body[:200]!r}")
        return name, setup

    def lk_del_repo(w, d, mk, m):
        name, setup = sac_repo(w, mk)

        def verify():          # -> True when the deletion was carried out
            st, body, _ = w.srv.raw("GET", "/api/v1/repository", headers=basic_header(w.srv.admin))
            return name not in (repo_list(body) or [name])
        return Probe("DELETE /api/v1/repository/{}", m, f"/api/v1/repository/{name}", setup=setup, verify=verify,
                     cleanup=lambda: w.srv.raw("DELETE", f"/api/v1/repository/{name}", headers=basic_header(w.srv.admin)))

    def lk_del_ls(w, d, mk, m):
        name, setup = sac_repo(w, mk, logstream=True)

        def verify():
            st, body, _ = w.srv.raw("GET", f"/api/v1/logstream/{name}", headers=basic_header(w.srv.admin))
            return "lsx" not in (repo_list(body) or ["lsx"])
        return Probe("DELETE /api/v1/logstream/{}/{}", m, f"/api/v1/logstream/{name}/lsx", setup=setup, verify=verify,
                     cleanup=lambda: w.srv.raw("DELETE", f"/api/v1/repository/{name}", headers=basic_header(w.srv.admin)))

    add("/api/v1/repository/{repository}", ["POST"], "lk_mgmt", lambda w, d, mk, m: Probe(
        "POST /api/v1/repository/{}", m, f"/api/v1/repository/c19r{w.ns}n{mk}", adds=[f"db:c19r{w.ns}n{mk}", f"repo:c19r{w.ns}n{mk}"],
        cleanup=lambda: w.srv.raw("DELETE", f"/api/v1/repository/c19r{w.ns}n{mk}", headers=basic_header(w.srv.admin))))
    add("/api/v1/repository/{repository}", ["DELETE"], "lk_mgmt", lk_del_repo)
    add("/api/v1/repository/{repository}", ["PUT"], "lk_mgmt", lambda w, d, mk, m: Probe(
        "PUT /api/v1/repository/{}", m, f"/api/v1/repository/{w.db[d]}", body="{}", effectful=True))
    add("/api/v1/repository/{repository}", ["GET"], "lk_show", lambda w, d, mk, m: Probe(
        "GET /api/v1/repository/{}", m, f"/api/v1/repository/{w.db[d]}", tokens=[w.ls]))
    add("/api/v1/repository", ["GET"], "lk_list", lambda w, d, mk, m: Probe(
        "GET /api/v1/repository", m, "/api/v1/repository", listing=repo_list))
    add("/api/v1/logstream/{repository}/{logStream}", ["POST"], "lk_mgmt", lambda w, d, mk, m: Probe(
        "POST /api/v1/logstream/{}/{}", m, f"/api/v1/logstream/{w.db[d]}/c19l{mk}", body='{"ttl":7}', adds=[f"ls:{d}:c19l{mk}", f"rp:{d}:c19l{mk}:168h0m0s", f"mst:{d}:c19l{mk}"],
        cleanup=lambda: w.srv.raw("DELETE", f"/api/v1/logstream/{w.db[d]}/c19l{mk}", headers=basic_header(w.srv.admin))))
    add("/api/v1/logstream/{repository}/{logStream}", ["DELETE"], "lk_mgmt", lk_del_ls)
    add("/api/v1/logstream/{repository}/{logStream}", ["PUT"], "lk_mgmt", lambda w, d, mk, m: Probe(
        "PUT /api/v1/logstream/{}/{}", m, f"/api/v1/logstream/{w.db[d]}/{w.ls}", body='{"ttl":7}', effectful=True))
    add("/api/v1/logstream/{repository}/{logStream}", ["GET"], "lk_show", lambda w, d, mk, m: Probe(
        "GET /api/v1/logstream/{}/{}", m, f"/api/v1/logstream/{w.db[d]}/{w.ls}", tokens=["ShardGroupDuration"]))
    add("/api/v1/logstream/{repository}", ["GET"], "lk_show", lambda w, d, mk, m: Probe(
        "GET /api/v1/logstream/{}", m, f"/api/v1/logstream/{w.db[d]}", tokens=[w.ls]))
    base = "/repo/{repository}/logstreams/{logStream}"

    def lsp(w, d):
        return f"/repo/{w.db[d]}/logstreams/{w.ls}"

    def trng():
        n = int(time.time() * 1000)
        return {"from": str(n - 900000), "to": str(n + 900000)}
    add(base + "/records", ["POST"], "lk_write", lambda w, d, mk, m: Probe(
        "POST /repo/{}/logstreams/{}/records", m, lsp(w, d) + "/records", {"type": "json"},
        json.dumps({"logs": [{"content": f"c19 probe {mk}", "time": int(time.time() * 1000)}]}), effectful=True))
    add(base + "/upload", ["POST"], "lk_write", lambda w, d, mk, m: Probe(
        "POST /repo/{}/logstreams/{}/upload", m, lsp(w, d) + "/upload", None,
        json.dumps({"logs": [{"content": f"c19 probe {mk}", "time": int(time.time() * 1000)}]}), effectful=True))
    for leaf, q, strict in (("logs", {"query": "*", "limit": "10"}, False), ("context", {"query": "*"}, False),
                            ("histogram", {"query": "*"}, True), ("analytics", {"query": "*|select count(*)"}, True)):
        add(base + "/" + leaf, ["GET"], "lk_query", (lambda leaf, q, strict: lambda w, d, mk, m: Probe(
            f"GET /repo/{{}}/logstreams/{{}}/{leaf}", m, lsp(w, d) + "/" + leaf, {**q, **trng()}, authn_only=not strict, effectful=True,
            note="" if strict else "no log data can exist without the external object store: answered before the authorisation"))(leaf, q, strict))
    for leaf, q in (("logbycursor", {"query": "*"}), ("consume/logs", {"query": "*"}), ("consume/cursor-time", {"cursor": "x"}),
                    ("consume/cursors", {})):
        add(base + "/" + leaf, ["GET"], "lk_consume", (lambda leaf, q: lambda w, d, mk, m: Probe(
            f"GET /repo/{{}}/logstreams/{{}}/{leaf}", m, lsp(w, d) + "/" + leaf, {**q, **trng()}, authn_only=True, effectful=True,
            note="needs consumer cursors of the external log service: exercised up to the authentication decision"))(leaf, q))
    add(base + "/cursor", ["GET"], "lk_noop", lambda w, d, mk, m: Probe("GET /repo/{}/logstreams/{}/cursor", m, lsp(w, d) + "/cursor", trng(), effectful=True))
    add(base + "/cursor/{cursor}", ["GET"], "lk_noop", lambda w, d, mk, m: Probe("GET /repo/{}/logstreams/{}/cursor/{}", m, lsp(w, d) + "/cursor/abc",
                                                                                 effectful=True))
    add(base + "/recalldata", ["POST"], "lk_mgmt", lambda w, d, mk, m: Probe("POST /repo/{}/logstreams/{}/recalldata", m, lsp(w, d) + "/recalldata",
                                                                             body="{}", effectful=True))
    add(base + "/stream-task", ["POST"], "lk_mgmt", lambda w, d, mk, m: Probe("POST /repo/{}/logstreams/{}/stream-task", m, lsp(w, d) + "/stream-task",
                                                                              body="{}", authn_only=True, effectful=True,
                                                                              note="stream tasks need the external stream service"))
    add(base + "/stream-task/{taskId}", ["DELETE"], "lk_mgmt", lambda w, d, mk, m: Probe(
        "DELETE /repo/{}/logstreams/{}/stream-task/{}", m, lsp(w, d) + "/stream-task/c19-no-such-task", effectful=True))
    return T


ROUTES = route_builders()


# ---------------------------------------------------------------------------------------------------
# statements of the query endpoint

EFFECT_KINDS = {"sel_into", "delete", "drop_rp", "create_db", "drop_db", "create_rp", "user_admin", "root_ddl"}
ON_KINDS = {"sel", "sel_into", "show_in", "drop_rp", "drop_db", "create_rp"}
NVARIANTS = {"sel": 4, "sel_into": 2, "show_in": 6, "show_dbs": 1, "delete": 3, "drop_rp": 1, "create_db": 1, "drop_db": 1, "create_rp": 1,
             "user_admin": 7, "root_show": 6, "root_ddl": 6}


class Stmt:
    def __init__(self, text, adds=(), tokens=(), cleanup=None, setup=None, verify=None, listing=None, skip=None, gone=None):
        self.gone = gone or {}
        self.text, self.adds, self.tokens = text, list(adds), list(tokens)
        self.cleanup, self.setup, self.verify, self.listing, self.skip = cleanup, setup, verify, listing, skip


def dbs_listing(w):
    def parse(body):
        try:
            res = json.loads(body)["results"][0]
        except Exception:
            return None
        names = set(values_of(res))
        return {d for d, D in w.db.items() if D in names}
    return parse


def build_stmt(w, k, r, v, carried, seqmode):
    """one statement of kind k for the abstract request r (variant v).  carried: the design expects the whole request to
    be carried out - destructive statements then get a victim of their own."""
    db, on = r["db"], r["on"] if k in ON_KINDS else ""
    eff = on or db
    E, D = w.db[eff], w.db[db]
    mk = w.mk()
    v %= NVARIANTS[k]
    src = (f'"{E}"..c19m' if v % 2 == 0 else f'"{E}".autogen.c19m') if on else ("c19m" if v % 2 == 0 else "autogen.c19m")
    me = w.uname.get(r["cred"].get("u"), w.vic) if r["cred"].get("u") in w.users else w.vic
    if k == "sel":
        if v < 2:
            return Stmt(f"SELECT * FROM {src}", tokens=[w.tok_rows[eff]])
        if v == 2:
            return Stmt(f"SELECT v FROM {src} GROUP BY host", tokens=[w.tok_rows[eff]])
        return Stmt(f"SELECT * FROM (SELECT v FROM {src} GROUP BY host)", tokens=[w.tok_rows[eff]])
    if k == "sel_into":
        tgt = f"c19into_{mk}"
        return Stmt(f'SELECT v INTO "{E}".autogen.{tgt} FROM ' + ("c19m" if v == 0 else "autogen.c19m") if on else f"SELECT v INTO {tgt} FROM c19m",
                    adds=[f"mst:{eff}:{tgt}"])
    if k == "show_in":
        o = f' ON "{E}"' if on else ""
        forms = [(f"SHOW MEASUREMENTS{o}", [w.tok_cat[eff]]), (f"SHOW SERIES{o}", [w.tok_rows[eff]]), (f"SHOW TAG KEYS{o}", [w.tok_cat[eff]]),
                 (f"SHOW FIELD KEYS{o}", [w.tok_cat[eff]]), (f"SHOW TAG VALUES{o} WITH KEY = host", [w.tok_rows[eff]]),
                 (f"SHOW RETENTION POLICIES{o}", [w.vicrp])]
        return Stmt(forms[v][0], tokens=forms[v][1])
    if k == "show_dbs":
        return Stmt("SHOW DATABASES", listing=dbs_listing(w))
    if k == "delete":
        victim = "c19del"
        setup = verify = None
        if carried:
            if w.del_next.get(db, 0) >= w.ndel:
                return Stmt("", skip="no victim measurement left for a deletion that is carried out")
            victim = f"c19del_{w.del_next.get(db, 0)}"
            w.del_next[db] = w.del_next.get(db, 0) + 1

            def verify(victim=victim):
                t0 = time.time()
                while True:      # the series index follows within seconds
                    res = w.srv.aq(f'show series on "{D}" from {victim}')[0]
                    if not values_of(res):
                        return True
                    if time.time() - t0 > 8:
                        return False
                    time.sleep(0.4)
            return Stmt([f"DROP SERIES FROM {victim}", f"DROP SERIES FROM {victim} WHERE k = 'a'", f"DROP SERIES FROM {victim}"][v], verify=verify)
        # DELETE is parsed and authorised but not implemented by the executor ("unsupported command")
        text = [f"DELETE FROM {victim}", f"DROP SERIES FROM {victim}", f"DELETE FROM {victim} WHERE time < now() + 1h"][v]
        return Stmt(text)
    if k == "drop_rp":
        if carried and seqmode and w.rpx.get(eff):
            name = w.rpx[eff]

            def verify(name=name):
                res = w.srv.aq(f'show retention policies on "{E}"')[0]
                gone = name not in values_of(res)
                if gone:
                    w.rpx[eff] = None
                return gone
            return Stmt(f'DROP RETENTION POLICY {name} ON "{E}"', verify=verify)
        return Stmt(f'DROP RETENTION POLICY {"c19rp_none" if carried else w.vicrp} ON "{E}"')
    if k == "create_db":
        name = f"c19x{w.ns}n{mk}"
        return Stmt(f"CREATE DATABASE {name}", adds=[f"db:{name}"], cleanup=_drop_db_cleanup(w, name))
    if k == "drop_db":
        if not carried:
            return Stmt(f'DROP DATABASE "{E}"')
        if seqmode:
            return Stmt(f'DROP DATABASE "{E}"', verify=lambda: w.name_gone(E, bound=120), gone={eff: E})
        name = f"c19sac{w.ns}n{mk}"

        def setup():
            err = w.srv.addl(f"CREATE DATABASE {name}")
            if err:
                raise vlib.Infra(f"create database {name}: {err}")

        def verify():
            return w.name_gone(name)
        return Stmt(f"DROP DATABASE {name}", setup=setup, verify=verify)
    if k == "create_rp":
        name = f"c19rpx{mk}"
        st = Stmt(f'CREATE RETENTION POLICY {name} ON "{E}" DURATION 1d REPLICATION 1', adds=[f"rp:{eff}:{name}:24h0m0s"])
        if seqmode:
            st.cleanup = lambda: w.rpx.__setitem__(eff, name)       # kept: a later DROP RETENTION POLICY names it
        else:
            st.cleanup = lambda: w.srv.addl(f'DROP RETENTION POLICY {name} ON "{E}"')
        return st
    if k == "user_admin":
        if carried or v == 0:
            name = f"c19s{w.ns}n{mk}"
            return Stmt(f"CREATE USER {name} WITH PASSWORD 'Scr4tch#{w.ns}_pw'", adds=[f"user:{name}:plain"],
                        cleanup=lambda: w.srv.addl(f"DROP USER {name}"))
        forms = [None, f"DROP USER {w.vic}", f"SET PASSWORD FOR {w.vic} = 'Ch4nged#{w.ns}_pw'", f'GRANT ALL ON "{D}" TO {w.vic}',
                 f'GRANT ALL ON "{D}" TO {me}', f'REVOKE READ ON "{w.db["db2"]}" FROM {w.vic}', f"GRANT ALL PRIVILEGES TO {me}"]
        return Stmt(forms[v])
    if k == "root_show":
        forms = [("SHOW USERS", [w.hid]), (f"SHOW GRANTS FOR {w.vic}", ["READ"]), ("SHOW SHARDS", []), ("SHOW SHARD GROUPS", []),
                 ("SHOW SUBSCRIPTIONS", []), ("SHOW USERS", [w.hid])]
        return Stmt(forms[v][0], tokens=forms[v][1])
    if k == "root_ddl":
        if carried or v == 0:
            name = f"c19cm{mk}"
            return Stmt(f"CREATE MEASUREMENT {name}", adds=[f"mst:{db}:{name}"])
        forms = [None, "DROP MEASUREMENT c19del", f'ALTER RETENTION POLICY {w.vicrp} ON "{D}" DURATION 9d', "DROP SHARD 1", "KILL QUERY 1",
                 f'CREATE SUBSCRIPTION c19sub ON "{D}"."autogen" DESTINATIONS ALL \'http://127.0.0.1:1\'']
        return Stmt(forms[v])
    raise vlib.Infra(f"unknown statement kind {k}")


def query_probe(w, r, variant, carried, seqmode):
    sts = [build_stmt(w, k, r, variant if i == 0 else 0, carried, seqmode) for i, k in enumerate(r["stmts"])]
    for s in sts:
        if s.skip:
            return None, s.skip
    post = any(k in EFFECT_KINDS for k in r["stmts"]) or variant % 3 == 2
    text = "; ".join(s.text for s in sts)
    key = "Q:" + "+".join(f"{k}/{(variant if i == 0 else 0) % NVARIANTS[k]}" for i, k in enumerate(r["stmts"]))

    def chain(fs):
        fs = [f for f in fs if f]
        if not fs:
            return None
        return lambda: [f() for f in fs]
    verifs = [s.verify for s in sts if s.verify]
    listing = next((s.listing for s in sts if s.listing), None)
    p = Probe(key, "POST" if post else "GET", "/query", {"q": text, "db": w.db[r["db"]]},
              adds=[a for s in sts for a in s.adds], tokens=[t for s in sts for t in s.tokens],
              cleanup=chain([s.cleanup for s in sts]), setup=chain([s.setup for s in sts]),
              verify=(lambda: any(f() for f in verifs)) if verifs else None, listing=listing if len(sts) == 1 else None)
    p.text = text
    for s in sts:
        p.gone.update(s.gone)
    return p, None


# ---------------------------------------------------------------------------------------------------
# credentials on the wire

def apply_creds(w, probe, cred, tr):
    """-> (params, headers) of the request with the credentials of the abstract request"""
    params, headers = dict(probe.params), dict(probe.headers)
    k = cred["k"]
    if k == "none":
        return params, headers
    if k == "malformed":
        if tr == "basic":
            headers["Authorization"] = "Basic !!!not-base64!!!"
        elif tr == "token":
            headers["Authorization"] = "Token " + w.uname["u1"] + "-without-colon"
        elif tr == "bearer":
            headers["Authorization"] = "Bearer not.a.jwt"
        else:
            params["u"] = w.uname["u1"]          # user without password: falls through to the (absent) header
        return params, headers
    u, pwk = cred["u"], cred["pw"]
    name = w.uname[u]
    pw = w.pw(u, pwk)
    if tr == "basic":
        headers.update(basic_header((name, pw)))
    elif tr == "token":
        headers["Authorization"] = f"Token {name}:{pw}"
    elif tr in ("url", "mixed"):
        params["u"], params["p"] = name, pw
        if tr == "mixed":
            headers.update(basic_header(w.srv.admin))
    elif tr == "bearer":
        # "cur": signed with the shared secret, valid now; "old": rightly signed but out of its validity (expired a while / long
        # ago, not valid yet, without an expiry); "bad": not rightly signed (another secret, another MAC, no signature at all)
        now = int(time.time())
        v = w.mk()
        if pwk == "cur":
            tok = jwt_hs256({"username": name, "exp": now + 600}, SECRET, alg="HS384" if v % 4 == 3 else "HS256")      # (any HMAC keyed with the secret)
        elif pwk == "old":
            claims = [{"username": name, "exp": now - 600}, {"username": name, "exp": now - 400 * 86400}, {"username": name, "exp": now + 600, "nbf": now + 300},
                      {"username": name}, {"username": name, "exp": now - 5}][v % 5]
            tok = jwt_hs256(claims, SECRET)
        else:
            tok = [jwt_hs256({"username": name, "exp": now + 600}, "another-secret"),
                   jwt_hs256({"username": name, "exp": now + 600}, "another-secret", alg="HS384"),
                   jwt_hs256({"username": name, "exp": now + 600}, SECRET, alg="none"),
                   jwt_hs256({"username": name, "exp": now + 600}, SECRET)[:-6] + "AAAAAA"][v % 4]
        headers["Authorization"] = "Bearer " + tok
    return params, headers


# ---------------------------------------------------------------------------------------------------
# executing one concrete request and judging it

class Obs:
    pass


ROOT_BAD_LOCK = threading.Lock()     # a wrong password for the (shared) administrator and the success that clears the counter


def is2xx(st):
    return 200 <= st < 300


def wrapper_rest(body):
    """what a 401 / 403 answer carries after the wrapper's own JSON error object (a handler that ran all the same wrote it)"""
    txt = body.decode(errors="replace")
    try:
        _, end = json.JSONDecoder().raw_decode(txt.lstrip())
        return txt.lstrip()[end:].strip()
    except Exception:
        return txt.strip()


def mismatches_side(e, probe, obs):
    """the side ports (meta / store role): the outcome of the specification says whether the request is refused AND whether the
    handler runs (the wrapper of these ports may answer 401 and run the handler all the same)"""
    m = []
    refused = obs.status in (401, 403)
    added, removed = obs.added or set(), obs.removed or set()
    if e["st"] == "ok":
        if refused:
            m.append(f"refused ({obs.status}) although the requester holds what the request needs")
        if added - probe.adds:
            m.append(f"unexpected change: {sorted(added - probe.adds)} appeared")
        if removed - probe.removes:
            m.append(f"unexpected change: {sorted(removed - probe.removes)} disappeared")
        return m
    if not refused:
        m.append(f"answered {obs.status} to a request that must be refused")
    if e["acted"]:
        # (prediction of reject_then_continue: the answer is the refusal, and the handler has run)
        if obs.ran is False:
            m.append("the handler did not run after the refusal")
        if (added - probe.adds) or (removed - probe.removes):
            m.append(f"unexpected change: {sorted((added - probe.adds) | (removed - probe.removes))}")
        return m
    if obs.ran:
        m.append(f"the handler ran although the request was refused: {obs.ran_why}")
    if obs.tokens:
        m.append(f"disclosed {obs.tokens} in the answer to a request that must be refused")
    if added:
        m.append(f"carried out: {sorted(added)} appeared")
    if removed:
        m.append(f"carried out: {sorted(removed)} disappeared")
    return m


def mismatches(e, probe, obs, rc):
    """reasons why the observation differs from the expected outcome e (empty list = it matches)"""
    if probe.port:
        return mismatches_side(e, probe, obs)
    m = []
    added = obs.added or set()
    removed = obs.removed or set()
    if e["st"] in ("unauthenticated", "forbidden"):
        lenient = probe.authn_only and e["st"] == "forbidden"
        if is2xx(obs.status) and not lenient:
            m.append(f"answered {obs.status} to a request that must be refused")
        if obs.tokens:
            m.append(f"disclosed {obs.tokens} in the answer to a request that must be refused")
        if added:
            m.append(f"carried out: {sorted(added)} appeared")
        if removed:
            m.append(f"carried out: {sorted(removed)} disappeared")
        if obs.verify is True:
            m.append("carried out: the victim object is gone")
        if obs.listing:
            m.append(f"listed {sorted(obs.listing)} in the answer to a request that must be refused")
        return m
    # the outcome "ok"
    if rc in ("ping", "preflight"):
        if not is2xx(obs.status):
            m.append(f"liveness / pre-flight answered {obs.status}")
        return m
    if obs.status in (401, 403):
        m.append(f"refused ({obs.status}) although the requester holds what the request needs")
    added = {f for f in added if not probe.about_gone(f)}
    removed = {f for f in removed if not probe.about_gone(f)}
    if added - probe.adds:
        m.append(f"unexpected change: {sorted(added - probe.adds)} appeared")
    if removed:
        m.append(f"unexpected change: {sorted(removed)} disappeared")
    if is2xx(obs.status):
        # (an allowed request that answers success without its effect is outside the property: counted, not judged)
        obs.effect_missing = bool((obs.added is not None and probe.adds - added) or (probe.verify is not None and obs.verify is False))
        if probe.listing is not None and obs.listing is not None:
            want = {t[1] for t in e["disc"] if t[0] == "name"}
            if obs.listing - want:
                m.append(f"listing names {sorted(obs.listing)}, the requester may see only {sorted(want)}")
            elif obs.listing != want:
                obs.effect_missing = True
    return m


class Runner:
    def __init__(self, w, finding_of, seqmode=False, precise=False, every=20):
        self.w, self.finding_of, self.seqmode, self.precise, self.every = w, finding_of, seqmode, precise, every
        self.cache = None          # facts after the last snapshot (minus facts under clean-up)
        self.ignore = set()        # facts of objects being cleaned up (their removal is asynchronous)
        self.pending = []          # requests answered 401 since the last snapshot (their facts were not read)
        self.fails = {}            # user -> wrong passwords since the last success
        self.n = 0
        self.records = []
        self.stats = {"requests": 0, "snapshots": 0, "refusal_code_differs": 0, "allow_other_status": 0, "allow_without_token": 0,
                      "deny_other_status": 0, "lenient_success": 0, "allow_effect_missing": 0, "resets": 0, "skipped": {}}
        self.cover = {}            # probe key -> credential classes seen
        self.known = {}            # finding id -> [example]
        self.violations = []

    def facts(self):
        self.stats["snapshots"] += 1
        return self.w.facts() - self.ignore

    def reset_failures(self, cred, tr, port=None):
        """a wrong password counts towards the lock of the account (5 failures in 30 s): a success clears the counter.
        Every role keeps its own counters (each has a metaclient of its own): the success is asked for on the same port."""
        if cred["k"] != "user" or cred["pw"] == "cur" or tr == "bearer":
            return
        u = cred["u"]
        if u == "ghost" or (u != "admin" and self.w.pwv.get(u, 0) < 1):
            return
        k = (port, u)
        self.fails[k] = self.fails.get(k, 0) + 1
        if u != "admin" and self.fails[k] < 3:       # (the account is locked at 5 failures within 30 s)
            return
        self.fails[k] = 0
        good = (self.w.uname[u], self.w.pw(u, "cur"))
        if port:
            st, body, _ = self.w.srv.raw("GET", "/debug/vars", headers=basic_header(good), port=port)
        else:
            st, body, _ = self.w.srv.raw("GET", "/query", {"q": "SHOW DATABASES"}, headers=basic_header(good))
        self.stats["resets"] += 1
        if st == 401:
            raise vlib.Infra(f"valid credentials of {good[0]} refused ({st} {body[:120]!r}) on the {port or 'sql'} port after a wrong-password request")

    def execute(self, entry, probe, rc, spec=None):
        """entry: the exported step of the specification (args, exp, imp, why)"""
        w, r = self.w, entry["args"]
        self.n += 1
        self.stats["requests"] += 1
        if self.cache is None:
            self.cache = self.facts()
        if probe.setup:
            probe.setup()
        params, headers = apply_creds(w, probe, r["cred"], r["tr"])
        root_bad = r["cred"]["k"] == "user" and r["cred"]["u"] == "admin" and r["cred"]["pw"] != "cur" and r["tr"] != "bearer"
        with (ROOT_BAD_LOCK if root_bad else contextlib.nullcontext()):
            st, body, rh = w.srv.raw(probe.method, probe.path, params, probe.body, headers, port=probe.port)
            if root_bad:
                self.reset_failures(r["cred"], r["tr"], probe.port)
        obs = Obs()
        obs.status = st
        text = body
        if rh.get("Content-Encoding") == "snappy" or (probe.headers.get("Content-Encoding") == "snappy" and is2xx(st) and body[:1] not in (b"{", b"")):
            text = snappy_decode(body) or body
        obs.tokens = [t for t in probe.tokens if t.encode() in text]
        obs.listing = None
        if probe.listing is not None and is2xx(st):
            lst = probe.listing(body)
            if lst is not None and not isinstance(next(iter(lst), ""), str):
                lst = None
            if lst is not None:
                rev = {D: d for d, D in w.db.items()}
                obs.listing = {rev.get(x, x) for x in lst if x in rev or x in w.db}
        need = self.precise or st != 401 or self.n % self.every == 0 or probe.verify is not None or bool(probe.port)
        obs.added = obs.removed = None
        obs.ran, obs.ran_why = None, ""
        obs.verify = None
        obs.effect_missing = False
        window = []
        if need:
            after = self.facts()
            obs.added, obs.removed = after - self.cache, self.cache - after
            window, self.pending = self.pending, []
            self.cache = after
            # the snapshot index of the meta node moves when a snapshot request is carried out (and, rarely, by itself)
            snap = {f for f in obs.added | obs.removed if f.startswith("meta:snapshot:")}
            obs.added, obs.removed = obs.added - snap, obs.removed - snap
            if probe.port:
                rest = wrapper_rest(body) if st in (401, 403) else ""
                moved = bool(snap) and probe.snapshot
                if moved and st in (401, 403):
                    # told apart from a snapshot the node took by itself: the same request moves the index again
                    if probe.setup:
                        probe.setup()
                    before = {f for f in self.facts() if f.startswith("meta:snapshot:")}
                    w.srv.raw(probe.method, probe.path, params, probe.body, headers, port=probe.port)
                    moved = {f for f in self.facts() if f.startswith("meta:snapshot:")} != before
                    self.cache = None
                effect = (obs.added & probe.adds) | (obs.removed & probe.removes)
                if st not in (401, 403):
                    obs.ran, obs.ran_why = True, f"status {st}"
                elif rest or effect or moved:
                    obs.ran = True
                    obs.ran_why = "; ".join(x for x in (f"the answer goes on after the refusal: {rest[:120]!r}" if rest else "",
                                                        f"{sorted(effect)} changed" if effect else "", "the meta node took a snapshot" if moved else "") if x)
                elif probe.silent and not (probe.adds or probe.removes or probe.snapshot):
                    obs.ran = None          # a handler that writes nothing and changes nothing: its run cannot be seen
                else:
                    obs.ran = False
            if probe.verify is not None:
                expect_carry = entry["exp"]["st"] == "ok" or entry["imp"]["st"] == "ok"
                if expect_carry or is2xx(st):
                    obs.verify = bool(probe.verify())
        rec = {"n": self.n, "req": r, "key": probe.key, "http": f"{probe.method} {probe.path}", "status": st, "rc": rc,
               "q": getattr(probe, "text", None), "exp": entry["exp"]["st"], "imp": entry["imp"]["st"], "why": entry["why"],
               "entry": entry, "spec": spec}
        mm = mismatches(entry["exp"], probe, obs, rc)
        verdict = "ok"
        if mm:
            mi = mismatches(entry["imp"], probe, obs, rc) if entry["why"] and entry["imp"] != entry["exp"] else ["-"]
            ids = {self.finding_of.get(d) for d in entry["why"]}
            if not mi and None not in ids:
                verdict = "known"
                for i in ids:
                    self.known.setdefault(i, []).append(rec)
            else:
                verdict = "violation"
                rec["detail"] = mm + ([f"(the as-implemented prediction {entry['imp']['st']} of {entry['why']} does not match either: {mi})"]
                                      if entry["why"] and mi != ["-"] else []) + \
                    ([f"(requests answered 401 since the last look at the catalogue: {[x['n'] for x in window]})"] if window and (obs.added or obs.removed) else [])
                rec["body"] = body[:300].decode(errors="replace")
                rec["window"] = [x["n"] for x in window]
                self.violations.append(rec)
        rec["verdict"] = verdict
        # statistics on what the comparison could use
        e = entry["exp"] if verdict != "known" else entry["imp"]
        if e["st"] != "ok":
            code = {"unauthenticated": 401, "forbidden": 403}[e["st"]]
            if is2xx(st):
                self.stats["lenient_success"] += 1
            elif st not in (401, 403):
                self.stats["deny_other_status"] += 1
            elif st != code:
                self.stats["refusal_code_differs"] += 1
        elif rc not in ("ping", "preflight"):
            if not is2xx(st):
                self.stats["allow_other_status"] += 1
            elif probe.tokens and not obs.tokens:
                self.stats["allow_without_token"] += 1
            if obs.effect_missing and verdict == "ok":
                self.stats["allow_effect_missing"] += 1
                rec["effect_missing"] = True
        if not need:
            self.pending.append(rec)
        # clean up what was carried out
        if probe.port:
            if probe.cleanup and (obs.ran or not need):
                probe.cleanup()
                self.cache = None
        elif obs.added and probe.cleanup and obs.added & probe.adds:
            probe.cleanup()
            self.ignore |= obs.added & probe.adds
            self.cache = self.cache - self.ignore
        elif probe.cleanup and probe.verify is not None:
            probe.cleanup()
        if not root_bad:
            self.reset_failures(r["cred"], r["tr"], probe.port)
        c = r["cred"]
        self.cover.setdefault(probe.key, set()).add((c["k"], c["u"], c["pw"], r["tr"]))
        self.records.append(rec)
        return rec


# ---------------------------------------------------------------------------------------------------
# TLC

BASE_CONST = """SPECIFICATION Spec
CONSTANTS
  Users = {users}
  Dbs = {{"db1", "db2"}}
  RouteClasses = {classes}
  StmtKinds = {kinds}
  Transports = {transports}
  MaxStmts = {maxstmts}
  MaxRows = {maxrows}
  MaxCreated = 1
  Fixture = FALSE
  WithRootActs = TRUE
  Depth = {depth}
  MaxInflight = 0
  Record = FALSE
  ImplDev = {{}}
  Dev = {dev}
VIEW view
INVARIANTS TypeOK NoActionWithoutPrivilege NoPartialEffect ListingsFiltered NoDanglingPrivilege
PROPERTIES GrantRevokeExact OthersKeepPrivileges
CHECK_DEADLOCK FALSE
"""


def tla_set(xs):
    return "{" + ", ".join(f'"{x}"' for x in xs) + "}"


def tlc(cfg, **kw):
    r = vlib.run_tlc("AuthMC", cfg, **kw)
    vlib.tlc_must_pass(r, cfg)
    return r


def mode_a(tier):
    """quick: 2 users x 2 databases, all route classes / statement kinds, 3 transports, 4 steps; thorough: that, plus all 5
    transports over 3 steps, plus two-statement queries over 3 steps, plus a narrow request alphabet over 6 steps"""
    cfgs = ("Auth.exh.quick.cfg", "Auth.exh.race.cfg", "Auth.exh.cache.cfg", "Auth.exh.ports.cfg") if tier == "quick" else \
        ("Auth.exh.quick.cfg", "Auth.exh.race.cfg", "Auth.exh.cache.cfg", "Auth.exh.ports.cfg", "Auth.exh.transports.cfg", "Auth.exh.thorough.cfg",
         "Auth.exh.deep.cfg")
    st = {"generated": 0, "distinct": 0, "depth": 0, "runs": []}
    taken = set()
    heavy = {"Auth.exh.quick.cfg", "Auth.exh.transports.cfg", "Auth.exh.thorough.cfg", "Auth.exh.deep.cfg"}
    with cf.ThreadPoolExecutor(4 if tier == "quick" else 3) as ex:       # (the configurations side by side)
        rs = list(ex.map(lambda cfg: tlc(cfg, workers=(5 if tier == "quick" else 6) if cfg in heavy else 2, timeout=1500 if tier == "quick" else 3300, coverage=(tier != "quick")), cfgs))
    for cfg, r in zip(cfgs, rs):
        for a, n in re.findall(r"<(\w+) line \d+, col \d+ to line \d+, col \d+ of module Auth>: (\d+):\d+", r["out"]):
            if int(n) > 0:
                taken.add(a)
        st["runs"].append({"cfg": cfg, "generated": r["generated"], "distinct": r["distinct"], "depth": r["depth"], "wall_s": round(r["wall_s"], 1)})
        st["generated"] += r["generated"]
        st["distinct"] += r["distinct"]
        st["depth"] = max(st["depth"], r["depth"])
    if tier != "quick":
        # vacuity guard: every action of the specification was taken in some exhaustive run
        acts = {"DoCreateUser", "DoDropUser", "DoSetPassword", "DoSetAdmin", "DoGrant", "DoRevoke", "DoDropDatabase", "DoCreateDatabase", "ReqNext",
                "BeginNext", "FinishNext"}
        if acts - taken:
            raise vlib.Infra(f"actions never taken in the exhaustive runs: {sorted(acts - taken)}")
    st["wall_s"] = round(max(x["wall_s"] for x in st["runs"]), 1)
    st["cfg"] = " + ".join(cfgs)
    return st


def check_seeds():
    """every deviation (mutation seeds and as-implemented ones) must give a TLC counterexample of a named property"""
    tmp = vlib.scratch("c19cfg")
    res = {}
    try:
        def one(d):
            if d in SEED_CFG:      # needs a configuration of its own (requests in two steps; the cache; the side ports)
                cfg = open(os.path.join(vlib.SPECS, "cfg", SEED_CFG[d])).read().replace("Dev = {}", "Dev = " + tla_set([d]))
                p = os.path.join(tmp, f"Auth.dev.{d}.cfg")
                open(p, "w").write(cfg)
                return vlib.run_tlc("AuthMC", p, workers=2, timeout=600)
            two = d == "lazy_multi_stmt"
            cfg = BASE_CONST.format(users=tla_set(["u1", "u2"]), classes=tla_set(["query", "write", "read", "createdb", "failpoint", "pprof", "expvar",
                                                                                   "runtimecfg", "lk_mgmt", "lk_list"]),
                                    kinds=tla_set(["sel", "show_dbs", "create_db", "delete"] if two else ["sel", "sel_into", "show_in", "show_dbs", "delete"]),
                                    transports=tla_set(["basic", "url", "bearer"]), maxstmts=2 if two else 1, maxrows=1, depth=5, dev=tla_set([d]))
            p = os.path.join(tmp, f"Auth.dev.{d}.cfg")
            open(p, "w").write(cfg)
            return vlib.run_tlc("AuthMC", p, workers=2, timeout=600)
        with cf.ThreadPoolExecutor(6) as ex:
            for d, r in zip(SEEDS, ex.map(one, list(SEEDS))):
                res[d] = r["violated"]
                if r["violated"] not in SEEDS[d]:
                    raise vlib.Infra(f"deviation {d}: TLC reports {r['violated']}, expected a counterexample of one of {sorted(SEEDS[d])}\n" + r["out"][-1500:])
    finally:
        import shutil
        shutil.rmtree(tmp, ignore_errors=True)
    return res


def export_matrix():
    with cf.ThreadPoolExecutor(2) as ex:
        f1 = ex.submit(tlc, "Auth.bfs.matrix.cfg", workers=4, timeout=600)
        f2 = ex.submit(tlc, "Auth.bfs.multi.cfg", workers=4, timeout=600)
        r1, r2 = f1.result(), f2.result()
    one = [h[0] for h in r1["traces"] if len(h) == 1]
    two = [h[0] for h in r2["traces"] if len(h) == 1 and len(h[0]["args"]["stmts"]) == 2]
    key = lambda e: json.dumps(e["args"], sort_keys=True)
    one.sort(key=key)
    two.sort(key=key)
    return one, two, {"matrix": {"cfg": "Auth.bfs.matrix.cfg", "requests": len(one), "wall_s": round(r1["wall_s"], 1)},
                      "multi": {"cfg": "Auth.bfs.multi.cfg", "requests": len(two), "wall_s": round(r2["wall_s"], 1)}}


def export_sequences(n, depth, seed):
    r = tlc("Auth.sim.cfg", simulate=n, depth=depth, seed=seed, timeout=900)
    groups = {}
    for h in r["traces"]:
        k = json.dumps([[e["a"], e["args"]] for e in h[:-1]], sort_keys=True)
        groups.setdefault(k, []).append(h)
    rnd = random.Random(seed * 7 + 1)
    hs = [rnd.choice(g) for _, g in sorted(groups.items())]
    return hs, {"cfg": "Auth.sim.cfg", "num": n, "depth": depth, "traces": len(r["traces"]), "behaviours": len(hs), "wall_s": round(r["wall_s"], 1)}


def export_scripts(seed, n):
    """the scripted family (life of one user's privileges), enumerated by BFS; a seeded sample of n"""
    r = tlc("Auth.bfs.script.cfg", workers=2, timeout=600)
    hs = sorted(r["traces"], key=lambda h: json.dumps([[e["a"], e["args"]] for e in h], sort_keys=True))
    rnd = random.Random(seed * 11 + 3)
    pick = hs if n >= len(hs) else rnd.sample(hs, n)
    return pick, {"cfg": "Auth.bfs.script.cfg", "behaviours": len(hs), "replayed": len(pick), "wall_s": round(r["wall_s"], 1)}


# ---------------------------------------------------------------------------------------------------
# the live route table

def live_routes():
    """-> {config name: {"routes": [(pattern, method)], "prefixes": [...]}} from the running code (vh routes)"""
    vh = vlib.build_vh()
    out = {}
    for name, args in (("basic", ["-pprof", "-runtimecfg"]), ("logkeeper", ["-product", "logkeeper", "-pprof", "-runtimecfg"])):
        scratch = vlib.scratch("c19rt")
        try:
            p = vlib.run_vh(vh, ["routes"] + args, timeout=300, env={"HOME": scratch})
        finally:
            import shutil
            shutil.rmtree(scratch, ignore_errors=True)
        line = next((l for l in p.stdout.splitlines() if l.startswith("ROUTES ")), None)
        if p.returncode != 0 or line is None:
            raise vlib.Infra(f"vh routes {args} failed (rc {p.returncode}): {p.stderr[-1500:]}")
        d = json.loads(line[7:])
        rm = [(r["pattern"], m) for r in d["routes"] for m in r["methods"]]
        out[name] = {"routes": rm, "prefixes": d["prefixes"], "via": d["via"]}
    # the HTTP ports of the meta and the store role dispatch with a switch inside ServeHTTP: the table is taken from the
    # syntax tree of the tree under verification (vh side-routes) and confirmed on the running port (discover_side)
    for role in ("meta", "store"):
        p = vlib.run_vh(vh, ["side-routes", "-role", role, "-src", os.path.realpath(vlib.REPO)], timeout=300)
        line = next((l for l in p.stdout.splitlines() if l.startswith("SIDEROUTES ")), None)
        if p.returncode != 0 or line is None:
            raise vlib.Infra(f"vh side-routes -role {role} failed (rc {p.returncode}): {p.stderr[-1500:]}")
        d = json.loads(line[11:])
        if d.get("opaque"):
            raise vlib.Infra(f"the dispatch of the {role} role's HTTP port has a shape the route walker does not understand (extend "
                             f"harness/cmd/vh/sideports.go): {d['opaque']}")
        out[role] = {"routes": [(f"{role}:{r['pattern']}", m) for r in d["routes"] for m in r["methods"]], "prefixes": [],
                     "unwrapped": [(f"{role}:{r['pattern']}", m) for r in d["routes"] if not r["wrapped"] for m in r["methods"]],
                     "via": f"syntax tree of (*httpHandler).ServeHTTP in {d['file']}", "candidates": d["candidates"], "wrapper": d.get("wrapper_calls")}
    return out


def map_routes(live):
    """every live route x method must have a route class; -> (unmapped, stale)"""
    unmapped, seen = [], set()
    for name, t in live.items():
        for pm in t["routes"]:
            if pm not in ROUTES:
                unmapped.append((name,) + pm)
            seen.add(pm)
        for pre in t["prefixes"]:
            ks = [k for k in ROUTES if k[1] == "*" and k[0].split("#")[0] == pre]
            if not ks:
                unmapped.append((name, pre, "*"))
            seen.update(ks)
    # (a key "<pattern>#<variant>" with a real method is a second concretisation of the live route <pattern>)
    seen |= {k for k in ROUTES if k[1] != "*" and "#" in k[0] and (k[0].split("#")[0], k[1]) in seen}
    stale = sorted(k for k in ROUTES if k not in seen)
    return unmapped, stale


def probe_unmapped(srv, w, unmapped):
    """does an unmapped route answer a request without credentials?"""
    out = []
    for name, pattern, method in unmapped:
        path = re.sub(r"\{[^}]+\}", "c19x", pattern)
        m = "GET" if method == "*" else method
        port = None
        if name in ("meta", "store"):
            port, path = name, path.split(":", 1)[1]
        st, body, _ = srv.raw(m, path, port=port)
        if port and st == 200 and not body:
            st = 404          # (the side ports answer a path they do not dispatch with an empty 200)
        out.append((pattern, method, st))
    return out


def discover_side(srv, role, live):
    """Which paths does the RUNNING port of the role dispatch?  A path the handler does not know is answered with an empty
    200 (GET, POST) or an empty 400 (other methods) before any wrapper runs; everything else is a route.  Candidates: every
    path-like string literal of the handler's package, the table from the syntax tree, the routes of the SQL port and
    a word list.  -> (routes found live, [(path, method, status)] that answer a request without credentials)"""
    cands = set(live[role]["candidates"]) | {k[0].split(":", 1)[1] for k in live[role]["routes"]}
    cands |= {re.sub(r"\{[^}]+\}", "c19x", pm[0]) for pm in live["basic"]["routes"]}
    cands |= {"/", "/ping", "/status", "/health", "/metrics", "/query", "/write", "/debug/pprof/", "/debug/pprof/cmdline", "/debug/pprof/goroutine",
              "/debug/requests", "/debug/ctrl", "/debug/query", "/snapshot", "/join", "/peers", "/lease", "/execute", "/raft", "/users", "/config", "/admin",
              "/getData", "/getdata/", "/takeOver", "/failpoint", "/backup/run", "/runtime_config"}
    cands = {c.split("?")[0] for c in cands}
    found, anonymous = set(), []
    ref = {}
    for m in ("GET", "POST", "PUT", "DELETE"):
        st, body, _ = srv.raw(m, "/c19-no-such-path", port=role)
        ref[m] = (st, body.strip())
    for c in sorted(cands):
        for m in ("GET", "POST", "PUT", "DELETE"):
            st, body, _ = srv.raw(m, c, port=role)
            if (st, body.strip()) == ref[m]:
                continue
            found.add((f"{role}:{c}", m))
            if st not in (401, 403):
                anonymous.append((c, m, st))
    return found, anonymous


def stray_paths(srv):
    """paths outside every mapped route: the server must answer them like a path that certainly does not exist"""
    ref = srv.raw("GET", "/c19-no-such-root/leaf")[:2]
    bad = []
    for p in ("/debug", "/debug/", "/debug/requests", "/debug/state", "/admin", "/api", "/api/v1", "/api/v2", "/health",
              "/ready", "/internal", "/cluster", "/raft", "/snapshot", "/users", "/config", "/v1/query", "/api/v1/status", "/api/v1/admin/tsdb/snapshot",
              "/api/v1/targets", "/api/v1/rules", "/api/v1/alerts", "/backup", "/restore", "/repo", "/shards"):
        got = srv.raw("GET", p)[:2]
        if got[0] not in (404, 405) and got != ref and got[0] != 401:
            bad.append((p, got[0]))
    return bad


# ---------------------------------------------------------------------------------------------------
# MATRIX: every request of the specification from the fixed privilege table

def cred_class(w, r):
    """the credential class of the property statement the abstract credentials fall into (for the coverage report)"""
    c = r["cred"]
    if c["k"] != "user":
        return c["k"]
    if c["u"] == "ghost":
        return "unknown user"
    if c["pw"] != "cur":
        return "wrong password"
    if c["u"] == "admin":
        return "administrator"
    return {"u1": "read-only user", "u2": "write-only user", "u3": "user of another database"}.get(c["u"], c["u"])


def live_keys(live, server):
    """the keys of ROUTES that are live on the server"""
    if server == "ports":
        base = set(live["basic"]["routes"])
        return {k for k in ROUTES if ROUTES[k][0] == "cread" and (k[0].split("#")[0], k[1]) in base} | set(live["meta"]["routes"]) | set(live["store"]["routes"])
    rs = set(live[server]["routes"])
    return rs | {k for k in ROUTES if k[1] == "*" and k[0].split("#")[0] in live[server]["prefixes"]} | \
        {k for k in ROUTES if k[1] != "*" and "#" in k[0] and (k[0].split("#")[0], k[1]) in rs}


def plan_matrix(entries, multi, live, server, tier, seed):
    """-> list of (entry, kind, spec) in execution order for one server; spec = (pattern, method) or statement variant"""
    rnd = random.Random(seed * 131 + {"basic": 1, "logkeeper": 2, "ports": 3}[server])
    thorough = tier != "quick"
    routes = live_keys(live, server)
    by_class = {}
    for pm, (rc, _) in ROUTES.items():
        if pm in routes and rc != "query":
            by_class.setdefault(rc, []).append(pm)
    for v in by_class.values():
        v.sort()
    plan = []
    rr = {}
    for e in entries:
        r = e["args"]
        rc = r["rc"]
        lk = rc in LK_CLASSES
        if (server == "ports") != (rc in PORTS_CLASSES):
            continue
        if server != "ports" and (server == "logkeeper") != lk:
            continue
        if rc in SIDE_CLASSES and r["db"] != "db1":
            continue            # (the side ports know no database: one of the two identical requests)
        if rc == "query":
            k = r["stmts"][0]
            nv = NVARIANTS[k]
            if thorough or (r["tr"] == "basic" and r["on"] == "" and r["db"] == "db1"):
                vs = range(nv)
            elif r["tr"] != "basic" and rnd.random() < 0.4:
                continue            # quick: a seeded 60 % of the requests over the other transports
            else:
                rr[k] = rr.get(k, 0) + 1
                vs = [rr[k] % nv]
            plan += [(e, "q", v) for v in vs]
        else:
            pms = by_class.get(rc, [])
            if not pms:
                continue
            if thorough or (r["tr"] == "basic" and r["db"] == "db1") or (rc in SIDE_CLASSES and r["tr"] == "bearer"):
                sel = pms
            elif r["tr"] != "basic" and rnd.random() < 0.4:
                continue
            else:
                rr[rc] = rr.get(rc, 0) + 1
                sel = [pms[rr[rc] % len(pms)]]
            plan += [(e, "r", pm) for pm in sel]
    if server == "basic":
        two = multi if thorough else rnd.sample(multi, min(len(multi), 500))
        for i, e in enumerate(two):
            plan.append((e, "q", i))
    rnd.shuffle(plan)
    return plan, by_class


def carried_by_someone(e):
    return e["exp"]["st"] == "ok" or e["imp"]["st"] == "ok"


def run_plan(runner, plan, seqmode=False):
    w = runner.w
    for e, kind, spec in plan:
        r = e["args"]
        if kind == "q":
            probe, skip = query_probe(w, r, spec, carried_by_someone(e), seqmode)
            if probe is None:
                runner.stats["skipped"][skip] = runner.stats["skipped"].get(skip, 0) + 1
                continue
        else:
            rc, build = ROUTES[spec]
            probe = build(w, r["db"], w.mk())
        runner.execute(e, probe, r["rc"], [kind, spec])


def run_matrix(server, entries, multi, live, tier, seed, finding_of, out, unmapped=()):
    srv = None
    try:
        srv = AuthServer(seed, logkeeper=(server == "logkeeper"), name="c19" + server[:2])
        w = World(srv, f"s{seed}m")
        um = probe_unmapped(srv, w, [u for u in unmapped if u[0] == server])
        plan, by_class = plan_matrix(entries, multi, live, server, tier, seed)
        ndel = sum(1 for e, kind, _ in plan if kind == "q" and "delete" in e["args"]["stmts"] and carried_by_someone(e))
        w.setup_matrix(ndel // 2 + 8)
        runner = Runner(w, finding_of)
        base = runner.facts()
        t0 = time.time()
        run_plan(runner, plan)
        final = runner.facts()
        drift = {f for f in (final ^ base) - runner.ignore if not re.search(r"c19(w|pw|ps|into|cm)_?\d|:c19l\d", f)}
        out[server] = {"runner": runner, "plan": len(plan), "classes": {k: len(v) for k, v in by_class.items()}, "wall_s": round(time.time() - t0, 1),
                       "drift": sorted(drift), "stray": stray_paths(srv), "unmapped": um}
    except BaseException as ex:   # noqa
        out[server] = {"error": ex, "log": srv.tail_log(2000) if srv else ""}
    finally:
        if srv:
            srv.stop()


# ---------------------------------------------------------------------------------------------------
# PORTS: the server that carries the side ports (meta, store role) and the response cache

def export_cache(seed, n):
    """the cache family of Auth.bfs.cache.cfg (who fills, who hits; an administrator action in between); n = None: all"""
    r = tlc("Auth.bfs.cache.cfg", workers=2, timeout=900)
    hs = sorted((h for h in r["traces"] if len(h) == 3), key=lambda h: json.dumps([[e["a"], e["args"]] for e in h], sort_keys=True))
    hot = [h for h in hs if any(e["a"] == "Request" and e["exp"] != e["imp"] for e in h)]
    cold = [h for h in hs if not any(e["a"] == "Request" and e["exp"] != e["imp"] for e in h)]
    st = {"cfg": "Auth.bfs.cache.cfg", "behaviours": len(hs), "decided_differently_by_cache_hit_skips_authz": len(hot), "wall_s": round(r["wall_s"], 1)}
    if n is None or n >= len(hs):
        st["played"] = len(hs)
        return hs, st
    rnd = random.Random(seed * 17 + 7)
    rnd.shuffle(hot)
    rnd.shuffle(cold)
    pick = hot[:n * 3 // 5] + cold[:n - min(len(hot), n * 3 // 5)]
    st["played"] = len(pick)
    return pick, st


def export_revoke(seed, n):
    """the GRANT / REVOKE table of Auth.bfs.revoke.cfg (privilege held x privilege revoked, REVOKE of what is not held)"""
    r = tlc("Auth.bfs.revoke.cfg", workers=2, timeout=600)
    hs = sorted((h for h in r["traces"] if len(h) == 4), key=lambda h: json.dumps([[e["a"], e["args"]] for e in h], sort_keys=True))
    rnd = random.Random(seed * 19 + 11)
    pick = hs if n is None or n >= len(hs) else rnd.sample(hs, n)
    return pick, {"cfg": "Auth.bfs.revoke.cfg", "behaviours": len(hs), "played": len(pick), "wall_s": round(r["wall_s"], 1)}


def play_revoke(w, hists, seed):
    """each behaviour on a user of its own (the databases are the fixture's); after every administrator action the user's
    (database) x (read, write) cells are probed.  -> (cells, divergences)"""
    cells, divs = 0, []
    for i, h in enumerate(hists):
        sub = World(w.srv, f"{w.ns}g{i}", users=("u1",))
        sub.db, sub.tok_rows, sub.tok_cat = w.db, w.tok_rows, w.tok_cat
        sub.hid = w.hid
        sub.mk = w.mk             # (the measurements the probes write get names that are fresh in the shared databases)
        for si, e in enumerate(h):
            sub.root(e["a"], e["args"])
            n, dv = probe_may(sub, e["exp"], si, e["a"], e["args"])
            cells += n
            if dv:
                divs.append({"idx": i, "step": si, "a": e["a"], "args": e["args"], "detail": dv, "hist": h})
        if sub.pwv["u1"] > 0:
            w.srv.addl(f"DROP USER {sub.uname['u1']}")
    return cells, divs


CREAD_FAMILIES = ["/api/v1/query_range#old", "/prometheus/{metric_store}/api/v1/query_range#old", "/api/v1/query#old",
                  "/prometheus/{metric_store}/api/v1/query#old"]


def cread_spec(w, rnd):
    """the concrete route of a cacheable read inside a behaviour: one route family per behaviour (its requests share the
    cache key), the method varies"""
    return (CREAD_FAMILIES[w.cread_family % len(CREAD_FAMILIES)], rnd.choice(["GET", "POST"]))


def restore_fixture(w, a, args):
    """undo an administrator action of a cache behaviour: back to the fixed privilege table"""
    s = w.srv
    fix = {("u1", "db1"): "read", ("u2", "db1"): "write", ("u3", "db2"): "all"}
    u = args.get("u")
    if a in ("Grant", "Revoke"):
        d = args["d"]
        err = s.addl(f'REVOKE ALL ON "{w.db[d]}" FROM {w.uname[u]}')
        if not err and fix.get((u, d)):
            err = s.addl(f'GRANT {fix[(u, d)].upper()} ON "{w.db[d]}" TO {w.uname[u]}')
        if err:
            raise vlib.Infra(f"restoring the privilege table after {a} {args}: {err}")
    elif a == "DropUser":
        w.root("CreateUser", {"u": u})
        w.root("SetPassword", {"u": u})
        for (x, d), p in fix.items():
            if x == u:
                w.root("Grant", {"u": u, "d": d, "p": p})


def play_cache(runner, hists, seed, first=0):
    """every behaviour gets a cache key of its own (a label matcher in the query text) and starts from the fixed privilege table"""
    w = runner.w
    rnd = random.Random(f"{seed}-cache")
    for i, h in enumerate(hists):
        idx = first + i
        w.cache_ns = f"s{seed}c{idx}"
        w.cread_family = idx if idx % 5 else 0          # (mostly the range queries, which the cache serves)
        undo = []
        for si, e in enumerate(h):
            if e["a"] == "Request":
                spec = cread_spec(w, rnd)
                probe = ROUTES[spec][1](w, e["args"]["db"], w.mk())
                rec = runner.execute(e, probe, "cread", ["r", list(spec)])
                rec["behaviour"], rec["step"] = idx, si
            else:
                w.root(e["a"], e["args"])
                runner.cache = None
                undo.append((e["a"], e["args"]))
        for a, args in undo:
            restore_fixture(w, a, args)
            runner.cache = None
    w.cache_ns = None


def run_ports(entries, caches, revokes, live, tier, seed, finding_of, out, unmapped=()):
    """matrix of the side-port classes and of the cacheable read (every request with a cache key of its own), the
    discovery of the routes the running side ports dispatch, the listening ports of the process, then the cache family"""
    srv = None
    try:
        srv = AuthServer(seed, name="c19po", store_port=True)
        w = World(srv, f"s{seed}p")
        w.side = True
        info = {"listening": srv.listening(), "configured": {"meta": srv.base + 1, "sql": srv.base + 3, "store": srv.base + 9},
                "store_port_opened_by_the_server": srv.store_conf_listens}
        # every port of the process that speaks HTTP must be one of the mapped roles
        http_ports = [p for p in info["listening"] if srv.speaks_http(p)]
        info["http"] = http_ports
        known = {srv.base + 1: "meta", srv.base + 3: "sql"}
        if srv.store_conf_listens:
            known[srv.base + 9] = "store"
        info["unmapped_http_ports"] = [p for p in http_ports if p not in known]
        found, anon = {}, {}
        for role in ("meta", "store"):
            found[role], anon[role] = discover_side(srv, role, live)
        um = probe_unmapped(srv, w, [u for u in unmapped if u[0] in ("meta", "store")])
        plan, by_class = plan_matrix(entries, [], live, "ports", tier, seed)
        w.setup_matrix(8)
        srv.open_store_port()      # (the store role's user table: the catalogue with the fixture's users)
        # the switches of the meta node are on in the fixture
        for path in ("/takeover", "/balance"):
            st, body, _ = srv.raw("POST", path, {"open": "true"}, headers=basic_header(srv.admin), port="meta")
            if st != 200:
                raise vlib.Infra(f"meta port {path}?open=true as the administrator: {st} {body[:200]!r}")
        runner = Runner(w, finding_of)
        base = runner.facts()
        t0 = time.time()
        run_plan(runner, plan)
        nmat = len(runner.records)
        t1 = time.time()
        play_cache(runner, caches, seed)
        t2 = time.time()
        rcells, rdivs = play_revoke(w, revokes, seed)
        final = runner.facts()
        drift = {f for f in (final ^ base) - runner.ignore if not f.startswith("meta:snapshot:") and not re.search(r"c19(w|pw|ps|into|cm)_?\d|:c19l\d", f)}
        out["ports"] = {"runner": runner, "plan": len(plan), "classes": {k: len(v) for k, v in by_class.items()}, "wall_s": round(t1 - t0, 1),
                        "cache_wall_s": round(t2 - t1, 1), "revoke": {"behaviours": len(revokes), "cells": rcells, "divs": rdivs,
                                                                       "wall_s": round(time.time() - t2, 1)}, "matrix_requests": nmat, "cache_requests": len(runner.records) - nmat,
                        "cache_behaviours": len(caches), "caches": caches, "drift": sorted(drift), "stray": [], "unmapped": um, "info": info,
                        "found": {r: sorted(found[r]) for r in found}, "anonymous": anon}
    except BaseException as ex:   # noqa
        out["ports"] = {"error": ex, "log": srv.tail_log(2000) if srv else ""}
    finally:
        if srv:
            srv.stop()


# ---------------------------------------------------------------------------------------------------
# SEQUENCES: behaviours of administrator actions and requests, each in a name space of its own

def probe_may(w, exp, step, a, args):
    """after an administrator action: what may every user do on every database?  -> (cells probed, list of divergences)"""
    s = w.srv
    divs, cells = [], 0
    wrote = {}
    # a superseded password is dead at once (asked before the current one is used again: a successful log-in refreshes
    # the server's password cache)
    for u in w.users:
        if u in exp["live"] and w.pwv[u] > 1:
            cells += 1
            st, body, _ = s.raw("GET", "/query", {"q": "SHOW DATABASES"}, headers=basic_header((w.uname[u], w.pw(u, "old"))))
            if st != 401:
                divs.append(f"the password {u} had before the last SET PASSWORD is answered {st} {body[:100]!r}")
    for u in w.users:
        live = u in exp["live"]
        name = w.uname[u]
        auth = basic_header((name, w.pw(u, "cur")))
        for d in sorted(w.db):
            if d not in exp["dbs"]:
                continue
            D = w.db[d]
            may = exp["may"][u][d]
            cells += 2
            st, body, _ = s.raw("GET", "/query", {"q": "SELECT * FROM c19m", "db": D}, headers=auth)
            got = st == 200 and w.tok_rows[d].encode() in body
            if live and may["r"]:
                if not got:
                    divs.append(f"{u} may read {d} but SELECT answered {st} {body[:120]!r}")
            elif is2xx(st) or w.tok_rows[d].encode() in body:
                divs.append(f"{u} ({'live' if live else 'dropped'}) may not read {d} but SELECT answered {st} {body[:120]!r}")
            elif not live and st != 401:
                divs.append(f"dropped user {u}: SELECT answered {st}, not 401")
            mk = w.mk()
            st, body, _ = s.raw("POST", "/write", {"db": D}, _lp(w, f"c19w_{mk}"), auth)
            if live and may["w"]:
                if st != 204:
                    divs.append(f"{u} may write {d} but /write answered {st} {body[:120]!r}")
                wrote.setdefault(d, []).append((f"c19w_{mk}", True, u))
            else:
                if is2xx(st):
                    divs.append(f"{u} ({'live' if live else 'dropped'}) may not write {d} but /write answered {st}")
                wrote.setdefault(d, []).append((f"c19w_{mk}", False, u))
        if live:
            # nobody but the administrator administers users
            st, body, _ = s.raw("GET", "/query", {"q": "SHOW USERS"}, headers=auth)
            cells += 1
            if is2xx(st) or w.hid.encode() in body:
                divs.append(f"{u} is not the administrator but SHOW USERS answered {st}")
    for d, items in wrote.items():
        ms = set(values_of(s.aq(f'show measurements on "{w.db[d]}"')[0]))
        for name, should, u in items:
            if (name in ms) != should:
                divs.append(f"write of {u} to {d}: measurement {name} {'exists' if name in ms else 'is missing'}")
    return cells, divs


def prepare_behaviour(srv, idx, seed):
    """the databases, rows and by-standers of one behaviour (before the rows are waited for)"""
    w = World(srv, f"s{seed}q{idx}z", users=("u1", "u2"))
    w.ndel = 10
    w.side = True
    w.cache_ns = f"s{seed}q{idx}"       # the cacheable reads of the behaviour share their cache key per database, as in the specification
    w.cread_family = idx if idx % 4 else 0
    for d in w.db:
        w.create_db(d)
    for d in w.db:
        w.seed_db(d)
    for name in (w.vic, w.hid):
        err = srv.addl(f"CREATE USER {name} WITH PASSWORD 'V1c#tim_{w.ns}Q'")
        if err:
            raise vlib.Infra(f"fixture user {name}: {err}")
    srv.addl(f'GRANT READ ON "{w.db["db2"]}" TO {w.vic}')
    return w


def play_behaviour(w, hist, idx, seed, finding_of, live, precise=False):
    srv = w.srv
    runner = Runner(w, finding_of, seqmode=True, precise=precise, every=5)
    exists = set(w.db)
    orig_facts = w.facts
    w.facts = lambda dbs=None: orig_facts(sorted(exists))
    routes = live_keys(live, "basic") | set(live["meta"]["routes"])
    by_class = {}
    for pm, (rc, _) in sorted(ROUTES.items()):
        if pm in routes and rc != "query":
            by_class.setdefault(rc, []).append(pm)
    rnd = random.Random(f"{seed}-{idx}")
    may_cells, may_divs, steps = 0, [], 0
    for si, e in enumerate(hist):
        steps += 1
        if e["a"] == "Request":
            r = e["args"]
            if r["rc"] == "query":
                spec = ["q", rnd.randrange(12)]
                probe, skip = query_probe(w, r, spec[1], carried_by_someone(e), True)
                if probe is None:
                    runner.stats["skipped"][skip] = runner.stats["skipped"].get(skip, 0) + 1
                    continue
            else:
                pms = by_class.get(r["rc"])
                if not pms:
                    continue
                spec = ["r", cread_spec(w, rnd) if r["rc"] == "cread" else rnd.choice(pms)]
                probe = ROUTES[spec[1]][1](w, r["db"], w.mk())
            rec = runner.execute(e, probe, r["rc"], spec)
            rec["step"] = si
            if "drop_db" in r["stmts"] and rec["verdict"] == "ok" and e["exp"]["st"] == "ok":
                # carried out by the administrator: the model's database is gone
                for ef in e["exp"]["effs"]:
                    if ef["k"] == "db_del":
                        w.name_gone(w.db[ef["d"]], bound=120)
                        exists.discard(ef["d"])
                        w.rpx[ef["d"]] = None
                runner.cache = None
        else:
            a, args = e["a"], e["args"]
            got = w.root(a, args)
            if a == "SetAdmin" and got != "refused":
                may_divs.append({"step": si, "a": a, "args": args, "detail": ["GRANT/REVOKE ALL PRIVILEGES was not refused"]})
            if a == "DropDatabase":
                exists.discard(args["d"])
                w.rpx[args["d"]] = None
            if a == "CreateDatabase":
                exists.add(args["d"])
                w.del_next[args["d"]] = 0
            if set(e["exp"]["dbs"]) != exists:
                raise vlib.Infra(f"behaviour {idx} step {si}: the replay's databases {sorted(exists)} differ from the specification's {e['exp']['dbs']}")
            runner.cache = None
            n, divs = probe_may(w, e["exp"], si, a, args)
            may_cells += n
            if divs:
                may_divs.append({"step": si, "a": a, "args": args, "detail": divs})
    # leave nothing behind
    for d in sorted(exists):
        srv.addl(f'DROP DATABASE "{w.db[d]}"')
    for u in w.users:
        if w.pwv[u] > 0:
            srv.addl(f"DROP USER {w.uname[u]}")
    for name in (w.vic, w.hid):
        srv.addl(f"DROP USER {name}")
    return {"runner": runner, "may_cells": may_cells, "may_divs": may_divs, "steps": steps, "idx": idx, "hist": hist}


def run_sequences(hists, seed, finding_of, live, out, servers=4):
    """every behaviour is sequential and the behaviours of one server run one after the other: requests and
    administrator actions never overlap (the specification's requests are atomic; concurrency between a request and a
    change of the user table is the subject of the race probe)"""
    t0 = time.time()
    items = list(enumerate(hists))
    shares = [items[i::servers] for i in range(servers)]
    prep = [0.0]

    def one(k, share):
        if not share:
            return []
        srv = AuthServer(seed, name=f"c19q{k}")
        try:
            t1 = time.time()
            for path in ("/takeover", "/balance"):
                srv.raw("POST", path, {"open": "true"}, headers=basic_header(srv.admin), port="meta")
            worlds = [prepare_behaviour(srv, i, seed) for i, _ in share]
            for w in worlds:
                w.wait_visible(list(w.db))
            prep[0] = max(prep[0], time.time() - t1)
            return [play_behaviour(w, h, i, seed, finding_of, live) for w, (i, h) in zip(worlds, share)]
        finally:
            srv.stop()
    try:
        with cf.ThreadPoolExecutor(servers) as ex:
            futs = [ex.submit(one, k, share) for k, share in enumerate(shares)]
            res = sorted((x for f in futs for x in f.result()), key=lambda x: x["idx"])
        out["seq"] = {"res": res, "wall_s": round(time.time() - t0, 1), "prepare_s": round(prep[0], 1)}
    except BaseException as ex:   # noqa
        out["seq"] = {"error": ex, "log": ""}



# ---------------------------------------------------------------------------------------------------
# RACE: a request between its authentication and its authorisation against a change of the user table

def export_race(seed, n):
    """the scripted family of Auth.bfs.race.cfg: three users created in any order, one granted everything on db1, one
    asks, another one is dropped between the two steps of that request; -> the scenarios whose outcome the deviation
    user_slot_alias changes first, then others, n in total"""
    r = tlc("Auth.bfs.race.cfg", workers=2, timeout=600)
    hs = sorted((h for h in r["traces"] if len(h) == 7 and h[-1]["a"] == "Finish"),
                key=lambda h: json.dumps([[e["a"], e["args"]] for e in h], sort_keys=True))
    rnd = random.Random(seed * 13 + 5)
    hot = [h for h in hs if h[-1]["exp"] != h[-1]["imp"]]
    cold = [h for h in hs if h[-1]["exp"] == h[-1]["imp"]]
    rnd.shuffle(hot)
    rnd.shuffle(cold)
    pick = hot[:max(1, n * 3 // 4)] + cold[:max(1, n // 4)]
    return pick, {"cfg": "Auth.bfs.race.cfg", "scenarios": len(hs), "changed_by_the_deviation": len(hot), "played": len(pick),
                  "wall_s": round(r["wall_s"], 1)}


def run_race(scens, seed, finding_of, out, attempts, threads=4):
    """each scenario is set up for real; while several connections keep asking as the requester, the administrator
    drops the other user.  Every answer must be the design's outcome for the requester; an answer that equals the
    prediction of user_slot_alias (the outcome for the user that moved into the requester's slot) is the open finding."""
    srv = None
    res = {"attempts": 0, "requests": 0, "design": 0, "alias": [], "violations": [], "scenarios": len(scens)}
    try:
        srv = AuthServer(seed, name="c19rc")
        w = World(srv, f"s{seed}r", users=())
        w.db = {"db1": w.db["db1"]}
        w.create_db("db1")
        w.seed_db("db1")
        w.wait_visible(["db1"])
        D, tok = w.db["db1"], w.tok_rows["db1"].encode()
        # a long statement: the handler parses it between the authentication and the authorisation
        cond = " OR ".join(f"v = {i}" for i in range(400))
        q = f"SELECT * FROM c19m WHERE v = 1 OR {cond}"
        t0 = time.time()
        for si, h in enumerate(scens):
            fin = h[-1]
            exp, imp = fin["exp"]["st"], fin["imp"]["st"]
            for at in range(attempts):
                names = {u: f"c19{w.ns}{si}x{at}{u}" for u in ("u1", "u2", "u3")}
                pw = {u: f"Rc1#{u}x{si}y{at}Z" for u in names}
                for e in h[:4]:
                    if e["a"] == "CreateUser":
                        err = srv.addl(f"CREATE USER {names[e['args']['u']]} WITH PASSWORD '{pw[e['args']['u']]}'")
                    else:
                        err = srv.addl(f'GRANT ALL ON "{D}" TO {names[e["args"]["u"]]}')
                    if err:
                        raise vlib.Infra(f"race scenario set-up: {e['a']} {e['args']}: {err}")
                v, x = h[4]["args"]["cred"]["u"], h[5]["args"]["u"]
                hdr = basic_header((names[v], pw[v]))
                stop = threading.Event()
                got = []

                def ask():
                    while not stop.is_set():
                        st, body, _ = srv.raw("GET", "/query", {"q": q, "db": D}, headers=hdr)
                        got.append((st, tok in body, body[:160]))
                ths = [threading.Thread(target=ask, daemon=True) for _ in range(threads)]
                for t in ths:
                    t.start()
                time.sleep(0.03 + 0.01 * (at % 5))
                err = srv.addl(f"DROP USER {names[x]}")
                time.sleep(0.05)
                stop.set()
                for t in ths:
                    t.join(timeout=30)
                if err:
                    raise vlib.Infra(f"race scenario: DROP USER: {err}")
                res["attempts"] += 1
                for st, leaked, body in got:
                    res["requests"] += 1
                    cls = "ok" if st == 200 and leaked else ("forbidden" if st == 403 and not leaked else ("unauthenticated" if st == 401 else f"other {st}"))
                    if cls == exp:
                        res["design"] += 1
                    elif cls == imp and fin["why"]:
                        res["alias"].append({"scenario": [[e["a"], e["args"].get("u") or e["args"].get("cred", {}).get("u")] for e in h],
                                             "requester": names[v], "moved_into_its_slot": names.get(fin["seen"], fin["seen"]), "design": exp, "real": cls,
                                             "answer": body.decode(errors="replace")})
                    else:
                        res["violations"].append({"scenario": [[e["a"], e["args"]] for e in h], "design": exp, "as_implemented": imp, "real": cls,
                                                  "answer": body.decode(errors="replace"), "hist": h})
                for u in names:
                    if u != x:
                        srv.addl(f"DROP USER {names[u]}")
        res["wall_s"] = round(time.time() - t0, 1)
        out["race"] = res
    except BaseException as ex:   # noqa
        out["race"] = {"error": ex, "log": ""}
    finally:
        if srv:
            srv.stop()


# ---------------------------------------------------------------------------------------------------
# the check

FINDING_TEXT = {
    "unwrapped_failpoint": "POST /failpoint is registered with the unauthenticated handler signature: anybody switches fail points on the stores",
    "unwrapped_debug": "/debug/pprof/* and /debug/query are dispatched by ServeHTTP before the router, without authentication",
    "unwrapped_expvar": "/debug/vars is dispatched by ServeHTTP before the router, without authentication",
    "unwrapped_runtimecfg": "GET /runtime_config is registered with the unauthenticated handler signature",
    "noauthz_createdb": "POST /api/v1/tsdb/{tsdb} creates a database for any authenticated user (no privilege check)",
    "user_slot_alias": "the authenticated user is a pointer into the SQL node's user table, which DROP USER compacts in place: a request in flight "
                       "is authorised with the record of the user that moved into its slot",
    "cache_hit_skips_authz": "a full hit of the result cache (Prometheus range queries) is answered without the authorisation decision: a user "
                             "without READ on the database gets the answer a privileged user's request left in the cache",
    "reject_then_continue": "the wrapper of the meta / store HTTP ports (lib/httpserver.Authenticate) answers a Bearer header with 401 "
                            "'unsupported authentication' and runs the handler all the same",
    "noauthz_sideport": "the meta / store HTTP ports authenticate but never authorise: any user without a single privilege reads the catalogue "
                        "with the password hashes and switches take-over / balancing",
    "noauthz_logkeeper": "the log-keeper API authenticates but does not authorise (repository / log-stream management, log ingestion, "
                         "consumption): any authenticated user creates, changes, lists and deletes repositories",
}


def load_findings():
    out = {}
    for f in vlib.load_known(PROP):
        for d in [f.get("dev"), f.get("deviation")]:
            if d:
                out[d] = f["id"]
    return out


def slim(rec):
    return {k: v for k, v in rec.items() if k not in ("entry",)}


def describe(rec):
    r = rec["req"]
    c = r["cred"]
    who = c["k"] if c["k"] != "user" else f"{c['u']}/{c['pw']}"
    return (f"{rec['http']}{' [' + rec['q'][:90] + ']' if rec.get('q') else ''} as {who} via {r['tr']} on {r['db']}: status {rec['status']}, "
            f"design {rec['exp']}, as-implemented {rec['imp']}; " + "; ".join(rec.get("detail", []))[:400])


def run(tier, seed):
    t0 = time.time()
    quick = tier == "quick"
    vserver.build_server()
    finding_of = load_findings()
    live = live_routes()
    unmapped, stale = map_routes(live)
    vlib.log(f"[c19] live route table: basic {len(live['basic']['routes'])} route-methods + {live['basic']['prefixes']}, "
             f"log-keeper {len(live['logkeeper']['routes'])}, meta port {len(live['meta']['routes'])}, store port {len(live['store']['routes'])}; "
             f"unmapped {unmapped}; stale {stale}; {time.time() - t0:.1f}s")
    out = {}
    with cf.ThreadPoolExecutor(8) as ex:
        fm = ex.submit(export_matrix)
        fq = ex.submit(export_sequences, 40 if quick else 260, 16 if quick else 22, seed)
        fc = ex.submit(export_scripts, seed, 6 if quick else 99)
        fr = ex.submit(export_race, seed, 12 if quick else 60)
        fk = ex.submit(export_cache, seed, 420 if quick else 2400)      # (thorough: every behaviour the deviation decides differently + a seeded part of the rest)
        entries, multi, mstats = fm.result()
        caches, kstats = fk.result()
        mstats["cache"] = kstats
        revokes, vstats = export_revoke(seed, 24 if quick else None)
        mstats["revoke"] = vstats
        hists, qstats = fq.result()
        scripts, cstats = fc.result()
        qstats["scripted"] = cstats
        races, rstats = fr.result()
        qstats["race"] = rstats
        vlib.log(f"[c19] TLC exports: {len(entries)} + {len(multi)} two-statement requests, {len(hists)} behaviours; {time.time() - t0:.1f}s")
        fa = ex.submit(mode_a, tier)
        fs = ex.submit(check_seeds)
        jobs = [ex.submit(run_matrix, sv, entries, multi, live, tier, seed, finding_of, out, unmapped) for sv in ("basic", "logkeeper")]
        jobs.append(ex.submit(run_ports, entries, caches, revokes, live, tier, seed, finding_of, out, unmapped))
        hists = scripts + (hists[:18] if quick else hists[:142])
        jobs.append(ex.submit(run_sequences, hists, seed, finding_of, live, out, 4 if quick else 6))
        jobs.append(ex.submit(run_race, races, seed, finding_of, out, 2 if quick else 4))
        for j in jobs:
            j.result()
        vlib.log(f"[c19] replay done at {time.time() - t0:.1f}s")
        exh = fa.result()
        seeds = fs.result()
    for k in ("basic", "logkeeper", "ports", "seq", "race"):
        if "error" in out[k]:
            ex_ = out[k]["error"]
            vlib.log(out[k].get("log", ""))
            if isinstance(ex_, vlib.Infra):
                raise ex_
            import traceback
            raise vlib.Infra(f"{k}: " + "".join(traceback.format_exception(ex_))[-2500:])
    return report(out, live, unmapped, stale, exh, seeds, mstats, qstats, finding_of, tier, seed, t0)


def report(out, live, unmapped, stale, exh, seeds, mstats, qstats, finding_of, tier, seed, t0):
    nviol = 0
    infra = []
    # (1) the route table
    answered = [u for sv in ("basic", "logkeeper", "ports") for u in out[sv]["unmapped"] if u[2] not in (401, 403, 404, 405)]
    if unmapped:
        if answered:
            path = vlib.save_replay(PROP, {"kind": "unmapped", "seed": seed, "routes": [list(u) for u in unmapped], "anonymous_answers": answered})
            print(f"VIOLATION property={PROP} replay={path}")
            vlib.log(f"   routes without a route class that answer a request without credentials: {answered}")
            nviol += 1
        else:
            infra.append(f"live routes without a route class in props/c19.py (they refuse anonymous requests: {[o for sv in ('basic', 'logkeeper', 'ports') for o in out[sv]['unmapped']]}): {unmapped}")
    for sv in ("basic", "logkeeper"):
        if out[sv]["stray"]:
            path = vlib.save_replay(PROP, {"kind": "stray", "seed": seed, "server": sv, "paths": out[sv]["stray"]})
            print(f"VIOLATION property={PROP} replay={path}")
            vlib.log(f"   paths outside the route table are answered without credentials on the {sv} server: {out[sv]['stray']}")
            nviol += 1
    # (1b) the side ports: the routes the running ports dispatch are those of the syntax tree; nothing there answers a request
    # without credentials; every port of the process that speaks HTTP belongs to a mapped role
    po = out["ports"]
    for role in ("meta", "store"):
        table = set(live[role]["routes"])
        got = {tuple(x) for x in po["found"][role]}
        anon = po["anonymous"][role]
        if anon:
            path = vlib.save_replay(PROP, {"kind": "unmapped", "seed": seed, "routes": [[role, f"{role}:{a[0]}", a[1]] for a in anon], "anonymous_answers": anon})
            print(f"VIOLATION property={PROP} replay={path}")
            vlib.log(f"   the {role} role's HTTP port answers requests without credentials: {anon}")
            nviol += 1
        elif got - table:
            infra.append(f"the running {role} port dispatches routes the syntax-tree walk did not find: {sorted(got - table)}")
        if table - got:
            infra.append(f"routes of the {role} port's syntax tree that the running port does not dispatch: {sorted(table - got)}")
    for d in po["revoke"]["divs"]:
        nviol += 1
        path = vlib.save_replay(PROP, {"kind": "revoke", "seed": seed, "hist": d["hist"], "result": {k: v for k, v in d.items() if k != "hist"}})
        print(f"VIOLATION property={PROP} replay={path}")
        vlib.log(f"   GRANT / REVOKE table, behaviour {[[e['a'], e['args'].get('p', '')] for e in d['hist']]} step {d['step']} {d['a']} {d['args']}: " +
                 "; ".join(d["detail"])[:600])
    if po["info"]["unmapped_http_ports"]:
        path = vlib.save_replay(PROP, {"kind": "stray", "seed": seed, "server": "ports", "paths": po["info"]["unmapped_http_ports"]})
        print(f"VIOLATION property={PROP} replay={path}")
        vlib.log(f"   the server process speaks HTTP on ports that belong to no mapped role: {po['info']}")
        nviol += 1
    # (2), (3) requests
    runners = [(sv, out[sv]["runner"], None) for sv in ("basic", "logkeeper", "ports")] + [("seq", x["runner"], x) for x in out["seq"]["res"]]
    known = {}
    shown = 0
    for where, rn, beh in runners:
        by_n = {r["n"]: r for r in rn.records}
        for v in rn.violations:
            nviol += 1
            if shown < 8:
                shown += 1
                if beh is None and "behaviour" in v:
                    case = {"kind": "cache", "seed": seed, "idx": v["behaviour"], "hist": out["ports"]["caches"][v["behaviour"]], "result": slim(v)}
                elif beh is None:
                    case = {"kind": "matrix", "server": where, "seed": seed, "tier": tier,
                            "records": [{"entry": by_n[n]["entry"], "spec": by_n[n]["spec"]} for n in v.get("window", []) if n in by_n] +
                                       [{"entry": v["entry"], "spec": v["spec"]}], "result": slim(v)}
                else:
                    case = {"kind": "seq", "seed": seed, "idx": beh["idx"], "hist": beh["hist"], "result": slim(v)}
                path = vlib.save_replay(PROP, case)
                print(f"VIOLATION property={PROP} replay={path}")
                vlib.log("   " + describe(v))
        for fid, recs in rn.known.items():
            known.setdefault(fid, []).extend(recs)
        if beh is not None:
            for d in beh["may_divs"]:
                nviol += 1
                if shown < 8:
                    shown += 1
                    path = vlib.save_replay(PROP, {"kind": "seq", "seed": seed, "idx": beh["idx"], "hist": beh["hist"], "result": d})
                    print(f"VIOLATION property={PROP} replay={path}")
                    vlib.log(f"   behaviour {beh['idx']} step {d['step']} {d['a']} {d['args']}: " + "; ".join(d["detail"])[:600])
    for sv in ("basic", "logkeeper", "ports"):
        if out[sv]["drift"]:
            nviol += 1
            path = vlib.save_replay(PROP, {"kind": "drift", "seed": seed, "server": sv, "facts": out[sv]["drift"]})
            print(f"VIOLATION property={PROP} replay={path}")
            vlib.log(f"   the catalogue of the {sv} server after the matrix differs from the one before it: {out[sv]['drift'][:12]}")
    race = out["race"]
    for v in race["violations"][:3]:
        nviol += 1
        path = vlib.save_replay(PROP, {"kind": "race", "seed": seed, "hist": v.pop("hist"), "result": v})
        print(f"VIOLATION property={PROP} replay={path}")
        vlib.log(f"   race scenario {v['scenario']}: the requester's answer is {v['real']} ({v['answer'][:160]}), design {v['design']}, "
                 f"user_slot_alias predicts {v['as_implemented']}")
    nviol += max(0, len(race["violations"]) - 3)
    if race["alias"]:
        fid = finding_of.get("user_slot_alias")
        a0 = race["alias"][0]
        if fid:
            print(f"KNOWN-FINDING: property={PROP} {fid} ({FINDING_TEXT['user_slot_alias']}) re-observed in {len(race['alias'])} of {race['requests']} "
                  f"requests of the race probe, e.g. requester {a0['requester']} (design: {a0['design']}) answered {a0['real']} with the record of "
                  f"{a0['moved_into_its_slot']}: {a0['answer'][:200]}")
        else:
            nviol += 1
            path = vlib.save_replay(PROP, {"kind": "race", "seed": seed, "result": a0})
            print(f"VIOLATION property={PROP} replay={path}")
            vlib.log(f"   race: requester {a0['requester']} (design: {a0['design']}) answered {a0['real']} with the record of {a0['moved_into_its_slot']}")
    dev_of = {}
    for d, fid in finding_of.items():
        dev_of.setdefault(fid, []).append(d)
    for fid in sorted(known):
        recs = known[fid]
        keys = sorted({r["key"] for r in recs})
        ex_ = recs[0]
        print(f"KNOWN-FINDING: property={PROP} {fid} ({'; '.join(FINDING_TEXT.get(d, d) for d in dev_of.get(fid, []))}) re-observed in {len(recs)} requests on "
              f"{len(keys)} routes ({', '.join(keys[:6])}{' ...' if len(keys) > 6 else ''}), e.g. {describe(ex_)[:300]}")
    if tier != "quick":
        rot = [fid for d, fid in finding_of.items() if fid not in known and d not in NONDETERMINISTIC]
        if rot:
            infra.append(f"open findings not re-observed any more (the list must not rot): {sorted(rot)}")
    # evidence
    allrec = [r for _, rn, _ in runners for r in rn.records]
    stats = {}
    for _, rn, _ in runners:
        for k, v in rn.stats.items():
            if isinstance(v, dict):
                stats.setdefault(k, {})
                for a, b in v.items():
                    stats[k][a] = stats[k].get(a, 0) + b
            else:
                stats[k] = stats.get(k, 0) + v
    cover = {}
    for sv in ("basic", "logkeeper", "ports"):
        for k, v in out[sv]["runner"].cover.items():
            cover.setdefault(k, set()).update(v)
    classes8 = ["none", "malformed", "unknown user", "wrong password", "read-only user", "write-only user", "user of another database", "administrator"]
    per_route = {}
    for sv in ("basic", "logkeeper", "ports"):
        for r in out[sv]["runner"].records:
            per_route.setdefault(r["key"], set()).add(cred_class(None, r["req"]))
    short = sorted(k for k, v in per_route.items() if not set(classes8) <= v and "+" not in k)
    distinct = len({json.dumps([r["req"], r["key"]], sort_keys=True) for r in allrec if not (r["exp"] == "unauthenticated" and r["req"]["cred"]["k"] == "none")})
    seqres = out["seq"]["res"]
    cov = {
        "states": exh["distinct"], "transitions": exh["generated"],
        "traces_validated_against_impl": len(seqres) + len({json.dumps(r["req"], sort_keys=True) for sv in ("basic", "logkeeper", "ports") for r in out[sv]["runner"].records}) + out["ports"]["cache_behaviours"],
        "samples": [[{"a": e["a"], "args": e["args"]} for e in seqres[0]["hist"]]] if seqres else [],
        "evaluations": len(allrec) + sum(x["may_cells"] for x in seqres) + race["requests"] + po["revoke"]["cells"],
        "grant_revoke_table": {k: v for k, v in po["revoke"].items() if k != "divs"},
        "distinct_nontrivial": distinct,
        "exhaustive": False,
        "rule": "matrix: every request of Auth.tla (route class | statement kind x credentials x transport x database x ON clause) from the fixed "
                "privilege table, enumerated by TLC (BFS, depth 1), concretised into the live routes / statement texts of its class (quick: every "
                "route x method and every statement text with all credentials over the basic transport, the other transports round-robin; thorough: "
                "the full product); sequences: seeded TLC simulation, one behaviour per simulated trace, every request and the (user, database) x "
                "(read, write) matrix after every administrator action. evaluations = HTTP requests judged + matrix cells probed; distinct = "
                "distinct (abstract request, concrete route / statement) pairs other than the trivial request without any credentials",
        "tlc": {"exh": exh, "matrix": mstats, "sim": qstats, "deviations_with_counterexample": seeds},
        "route_table": {"basic": {"route_methods": len(live["basic"]["routes"]), "prefixes": live["basic"]["prefixes"], "via": live["basic"]["via"]},
                        "meta": {"route_methods": len(live["meta"]["routes"]), "via": live["meta"]["via"]},
                        "store": {"route_methods": len(live["store"]["routes"]), "via": live["store"]["via"]},
                        "logkeeper": {"route_methods": len(live["logkeeper"]["routes"]), "prefixes": live["logkeeper"]["prefixes"]},
                        "mapped_entries": len(ROUTES), "unmapped": [list(u) for u in unmapped], "mapping_entries_not_live": [list(x) for x in stale]},
        "concrete_routes_probed": len(per_route),
        "routes_missing_a_credential_class": short,
        "matrix": {sv: {"requests": len(out[sv]["runner"].records), "plan": out[sv]["plan"], "routes_per_class": out[sv]["classes"],
                        "wall_s": out[sv]["wall_s"]} for sv in ("basic", "logkeeper", "ports")},
        "side_ports": {"listening_ports_of_the_process": po["info"]["listening"], "speak_http": po["info"]["http"], "configured": po["info"]["configured"],
                       "store_http_port_opened_by_the_server": po["info"]["store_port_opened_by_the_server"],
                       "store_port_bound_by": "the server" if po["info"]["store_port_opened_by_the_server"] else "vh sideport-store (run.NewService / Init / Open)",
                       "routes_dispatched_by_the_running_ports": {r: len(po["found"][r]) for r in po["found"]},
                       "wrapper": {r: live[r].get("wrapper") for r in ("meta", "store")}, "via": {r: live[r]["via"] for r in ("meta", "store")}},
        "cache_family": {"behaviours": po["cache_behaviours"], "requests": po["cache_requests"], "wall_s": po["cache_wall_s"],
                         "hits_expected_by_the_specification": sum(1 for r in po["runner"].records if r["entry"].get("hit"))},
        "sequences": {"behaviours": len(seqres), "steps": sum(x["steps"] for x in seqres), "requests": sum(len(x["runner"].records) for x in seqres),
                      "may_cells_probed": sum(x["may_cells"] for x in seqres), "wall_s": out["seq"]["wall_s"], "prepare_s": out["seq"]["prepare_s"]},
        "race_probe": {k: (v if not isinstance(v, list) else len(v)) for k, v in race.items()},
        "judging": stats,
        "by_expected_outcome": {k: sum(1 for r in allrec if r["exp"] == k) for k in ("ok", "unauthenticated", "forbidden")},
        "known_finding_requests": {k: len(v) for k, v in known.items()},
        "requests_with_divergence": nviol,
    }
    vlib.write_evidence(PROP, tier, seed, "model_checking", cov, time.time() - t0, nviol, [
        "TLC bounds as in the cfg files named under coverage.tlc; deviation cfgs are generated from BASE_CONST in props/c19.py",
        "real single-node ts-servers (auth-enabled on the SQL and the meta port, shared-secret, pprof-enabled, runtime-config enabled, result "
        "cache enabled with max-cache-freshness 1m; one of them with product-type logkeeper), the administrator created first; the route table "
        "of the SQL port comes from sql.NewServer in the same two configurations, the tables of the meta and the store port from the syntax "
        "tree of their ServeHTTP, confirmed on the running ports",
        "the store role's HTTP service is never opened by ts-server / ts-store in this tree (the configured port does not listen): it is opened "
        "by the harness from the exported constructors (run.NewService, Init, Open) with the user table of the live catalogue",
        "a side-port handler counts as run when the answer is not 401/403, or carries more than the wrapper's error object, or its effect "
        "(switch of the meta node, snapshot index) is there; a handler that writes and changes nothing (/debug/vars of the meta port "
        "without a statistics pusher) cannot be seen running",
        "the cache key of the specification (one per database) is a label matcher in the query text shared by the requests of one behaviour; "
        "cached answers expire after 30 minutes (memcache-expiration), longer than a behaviour lives",
        "a request counts as refused when its status is not 2xx, nothing appeared / disappeared in the catalogue, users, grants, victim series "
        "as the administrator sees them afterwards, no secret of the database is in the answer and a listing names nothing; 401 and 403 are not "
        "told apart (coverage.judging.refusal_code_differs counts them)",
        "after answers with status 401 the catalogue is read only every 20th request (every 5th in sequences); a change found later is "
        "reported with the window of requests it may belong to, and --replay reads it after every request",
        "requests the design carries out and that destroy something get a victim of their own; after a wrong password a request with the right one "
        "clears the account's failure counter (5 failures lock an account for 30 s)",
        "log-keeper routes that need the external object store / stream service are judged strictly only on the authentication decision "
        "(Probe.authn_only)",
    ])
    if infra:
        raise vlib.Infra("; ".join(infra))
    return 1 if nviol else 0


def replay(path, seed):
    obj = json.load(open(path))
    seed = obj.get("seed", seed)
    kind = obj["kind"]
    vserver.build_server()
    finding_of = load_findings()
    live = live_routes()
    if kind in ("unmapped", "stray", "drift"):
        vlib.log(f"[c19] {kind}: re-run the check (the case is the route table / the whole matrix): {json.dumps(obj)[:600]}")
        unmapped, stale = map_routes(live)
        if kind == "unmapped":
            print(f"VIOLATION property={PROP} replay={path}" if unmapped else "replay passes")
            return 1 if unmapped else 0
        return run(obj.get("tier", "quick"), seed)
    if kind == "race":
        out = {}
        if "hist" not in obj:
            vlib.log(f"[c19] race observation without an open finding: {json.dumps(obj['result'])[:600]}; re-run the check")
            return run("quick", seed)
        run_race([obj["hist"]], seed, finding_of, out, 25)
        if "error" in out["race"]:
            raise vlib.Infra(str(out["race"]["error"]))
        vlib.log(f"[c19] race probe: {out['race']['requests']} requests, {len(out['race']['alias'])} alias answers, {len(out['race']['violations'])} other divergences")
        if out["race"]["violations"] or (out["race"]["alias"] and "user_slot_alias" not in finding_of):
            print(f"VIOLATION property={PROP} replay={path}")
            return 1
        print("replay passes" + (" (known finding re-observed)" if out["race"]["alias"] else ""))
        return 0
    if kind == "revoke":
        srv = AuthServer(seed, name="c19rp")
        try:
            w = World(srv, f"s{seed}p")
            w.setup_matrix(2)
            cells, divs = play_revoke(w, [obj["hist"]], seed)
        finally:
            srv.stop()
        for d in divs:
            vlib.log(f"   step {d['step']} {d['a']} {d['args']}: " + "; ".join(d["detail"])[:600])
        print(f"VIOLATION property={PROP} replay={path}" if divs else "replay passes")
        return 1 if divs else 0
    if kind == "cache":
        srv = AuthServer(seed, name="c19rp")
        try:
            w = World(srv, f"s{seed}p")
            w.side = True
            w.setup_matrix(4)
            rn = Runner(w, finding_of, precise=True)
            play_cache(rn, [obj["hist"]], seed, first=obj.get("idx", 0))
        finally:
            srv.stop()
        bad = rn.violations
    elif kind == "matrix":
        srv = AuthServer(seed, logkeeper=(obj["server"] == "logkeeper"), name="c19rp", store_port=(obj["server"] == "ports"))
        try:
            w = World(srv, f"s{seed}m" if obj["server"] != "ports" else f"s{seed}p")
            w.side = obj["server"] == "ports"
            w.setup_matrix(12)
            if w.side:
                for path in ("/takeover", "/balance"):
                    srv.raw("POST", path, {"open": "true"}, headers=basic_header(srv.admin), port="meta")
            rn = Runner(w, finding_of, precise=True)
            plan = [(x["entry"], x["spec"][0], tuple(x["spec"][1]) if isinstance(x["spec"][1], list) else x["spec"][1]) for x in obj["records"]]
            run_plan(rn, plan)
        finally:
            srv.stop()
        bad = rn.violations
    else:
        srv = AuthServer(seed, name="c19rp")
        try:
            w = prepare_behaviour(srv, obj["idx"], seed)
            w.wait_visible(list(w.db))
            res = play_behaviour(w, obj["hist"], obj["idx"], seed, finding_of, live, precise=True)
        finally:
            srv.stop()
        rn = res["runner"]
        bad = rn.violations + res["may_divs"]
        for d in res["may_divs"]:
            vlib.log(f"   step {d['step']} {d['a']} {d['args']}: " + "; ".join(d["detail"])[:600])
    for r in rn.records:
        vlib.log(f"   [{r['verdict']}] " + describe(r)[:400])
    if bad:
        print(f"VIOLATION property={PROP} replay={path}")
        return 1
    print("replay passes" + (" (known findings re-observed)" if rn.known else ""))
    return 0
