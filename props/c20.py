"""C20 — column-store sparse and skip indexes never prune a block with a match.
Mode A: TLC exhaustively checks specs/SparseIndex.tla (the key-condition algorithm over sorted key records,
        fragments, RPN atoms, mask algebra, key-prefix hyper-rectangles, binary / exclusion search) for
        NeverSkipsMatch and MayCoversMatch within the cfg bounds.
Mode B: TLC-generated cases (every path of a small BFS config + seeded simulation up to 3 key columns, 8 rows,
        condition trees of depth 3 with IN / string operators / non-key atoms / time bounds) are replayed into the
        real PKIndexWriterImpl.Build -> NewKeyCondition -> PKIndexReaderImpl.Scan with several column types per
        case and every reader setting; the skip-index readers (set, min-max, bloom filter) are driven on the same
        cases. Verdict: a fragment with a brute-force matching row that the real code does not select."""
import concurrent.futures as cf
import json, os, time
import vlib

PROP = "C20"
MUTATION_SEEDS = ["le_as_lt", "or_as_and", "last_fragment_off_by_one", "null_as_minus_infinity"]
AS_IMPLEMENTED = ["right_bound_overwrites", "matchphrase_as_equality", "unknown_op_drops_element", "in_is_error"]


def _exh(cfg, stats, coverage=False):
    r = vlib.run_tlc("SparseIndexMC", cfg, timeout=3000, coverage=coverage)
    vlib.tlc_must_pass(r, cfg)
    stats.append({"cfg": cfg, **{k: r[k] for k in ("generated", "distinct", "depth")}, "wall_s": round(r["wall_s"], 1)})


def _sim(n, seed):
    r = vlib.run_tlc("SparseIndexMC", "SparseIndex.sim.cfg", simulate=n, depth=4, seed=seed, timeout=3000)
    vlib.tlc_must_pass(r, f"SparseIndex.sim.cfg seed={seed}")
    return r


def gen_cases(tier, seed):
    stats = {"exh": []}
    # Mode A: exhaustive design check
    cfgs = ["SparseIndex.exh.quick.cfg", "SparseIndex.exh.quick3.cfg"] if tier == "quick" else \
           ["SparseIndex.exh.thorough.cfg", "SparseIndex.exh.thorough.ia.cfg", "SparseIndex.exh.thorough3.cfg", "SparseIndex.exh.thorough3b.cfg"]
    for c in cfgs:
        _exh(c, stats["exh"])
    # Mode B generators
    cases = []
    r2 = vlib.run_tlc("SparseIndexMC", "SparseIndex.bfs.export.cfg", workers=4, timeout=900)
    vlib.tlc_must_pass(r2, "SparseIndex.bfs.export.cfg")
    cases += r2["traces"]
    stats["bfs_export"] = {"generated": r2["generated"], "distinct": r2["distinct"], "traces": len(r2["traces"])}
    if tier == "quick":
        runs = [(2500, seed)]
    else:
        runs = [(4000, seed * 1000 + i) for i in range(8)]
    gen = 0
    with cf.ThreadPoolExecutor(len(runs)) as ex:
        for r3 in ex.map(lambda a: _sim(*a), runs):
            cases += r3["traces"]
            gen += r3["generated"]
    stats["sim"] = {"generated": gen, "traces": sum(n for n, _ in runs), "runs": len(runs)}
    return cases, stats


def replay_cases(cases):
    vh = vlib.build_vh()
    results, errs = vlib.run_vh_parallel(vh, ["replay-sparse"], cases)
    if errs:
        raise vlib.Infra(f"harness process failed: {errs[0]}")
    if len(results) != len(cases):
        raise vlib.Infra(f"harness returned {len(results)} results for {len(cases)} cases")
    return results


def _nontrivial(h):
    """a case is non-trivial if some row matches and the specification does not select everything"""
    exp = h[2]["exp"]
    nf = h[0]["exp"]["nf"]
    return len(exp["match"]) > 0 and any(len(s) < nf for s in exp["sel"].values())


def run(tier, seed):
    t0 = time.time()
    behaviours, stats = gen_cases(tier, seed)
    nvar = 3 if tier == "quick" else 4
    cases = [{"id": i, "seed": seed, "hist": h, "variants": nvar, "skip": True} for i, h in enumerate(behaviours)]
    results = replay_cases(cases)
    hang = [r for r in results if r.get("hang")]
    if hang:
        raise vlib.Infra(f"harness case hung: {hang[0]}")
    infra = [r for r in results if r.get("infra")]
    if infra:
        raise vlib.Infra(f"harness infra error: {infra[0]['infra'][:2000]}")
    bad = [r for r in results if not r["ok"]]
    open_ids = {f["id"] for f in vlib.load_known(PROP)}
    known_n, known_ex, known_cases = {}, {}, {}
    for r in results:
        for kid, ex in (r.get("known") or {}).items():
            if kid not in open_ids:     # attributed to something that is not a listed open finding
                if r["ok"]:
                    r["ok"] = False
                    r["detail"] = f"divergence matches the deviation model of {kid}, which is not an open finding: {ex}"
                    bad.append(r)
                continue
            known_n[kid] = known_n.get(kid, 0) + r["known_n"][kid]
            known_cases[kid] = known_cases.get(kid, 0) + 1
            known_ex.setdefault(kid, ex)
    for kid in sorted(known_n):
        print(f"KNOWN-FINDING: property={PROP} {kid} re-observed in {known_cases[kid]} cases ({known_n[kid]} evaluations), e.g. {known_ex[kid][:420]}")
    byid = {c["id"]: c for c in cases}
    for r in bad[:5]:
        path = vlib.save_replay(PROP, {"case": byid[r["id"]], "result": {k: r.get(k) for k in ("id", "step", "action", "detail")}})
        print(f"VIOLATION property={PROP} replay={path}")
        vlib.log(r["detail"][:3000])
    tot = lambda k: sum(r.get(k, 0) for r in results)
    distinct = len({json.dumps([h[0]["args"], h[1]["args"]], sort_keys=True) for h in behaviours})
    nontrivial = len({json.dumps([h[0]["args"], h[1]["args"]], sort_keys=True) for h in behaviours if _nontrivial(h)})
    cov = {
        "states": sum(e["distinct"] for e in stats["exh"]), "transitions": sum(e["generated"] for e in stats["exh"]),
        "traces_validated_against_impl": len(results),
        "samples": [behaviours[0], behaviours[-1]] if behaviours else [],
        "exhaustive": True,
        "evaluations": tot("scans") + tot("skip_eval"), "distinct_nontrivial": nontrivial,
        "rule": "cases = (sorted key record, fragment size, column types, condition tree, time bounds) of SparseIndex.tla: all BFS paths of "
                "the small export config + seeded simulation; evaluations = real Scan calls (case x column-type variant x reader "
                "setting) + skip-index MayBeInFragment calls; distinct_nontrivial = distinct (record, condition) pairs in which "
                "some row matches and the specification prunes at least one fragment",
        "tlc": stats,
        "distinct_cases": distinct,
        "variants": tot("variants"), "scans": tot("scans"), "scans_equal_to_spec": tot("exact"),
        "scans_sound_but_different_from_spec": tot("drift"),
        "scans_unsound_attributed_or_not": tot("unsound"), "scans_failed_attributed_or_not": tot("failed"),
        "scans_that_modified_the_index_record": tot("mutated"),
        "skip_index_evaluations": tot("skip_eval"), "skip_index_negative_answers": tot("skip_neg"),
        "known_finding_evaluations": known_n,
    }
    vlib.write_evidence(PROP, tier, seed, "model_checking", cov, time.time() - t0, len(bad), [
        "TLC bounds as in the cfg files named under coverage.tlc; key values 0..2 and null (= +infinity, sorted last)",
        "pure API: PKIndexWriterImpl.Build, NewKeyCondition, PKIndexReaderImpl.Scan in process; records are handed over sorted "
        "(null last, the order the index reader assumes); the column-store write path rejects null primary keys",
        "row-level truth: comparisons with null are false, an atom on a non-key column may be true, matchphrase as decided by the "
        "row filter's token finder, like/match true when the literal equals the value",
        "skip indexes: set and bloom-filter readers on what the real writers produce; the min-max reader (no production ReadFunc, "
        "writer writes nothing) is given the sorted first key column and is not driven with null bounds",
    ])
    return 1 if bad else 0


def replay(path, seed):
    obj = json.load(open(path))
    res = replay_cases([obj["case"]])
    r = res[0]
    if r.get("infra"):
        raise vlib.Infra(r["infra"])
    open_ids = {f["id"] for f in vlib.load_known(PROP)}
    for kid, ex in (r.get("known") or {}).items():
        if kid in open_ids:
            print(f"KNOWN-FINDING: property={PROP} {kid} {ex[:420]}")
        else:
            r["ok"] = False
            r["detail"] = f"divergence matches the deviation model of {kid}, which is not an open finding: {ex}"
    if not r["ok"]:
        print(f"VIOLATION property={PROP} replay={path}")
        vlib.log(r["detail"][:3000])
        return 1
    print("replay passes")
    return 0


def selftest(seed):
    """every deviation of the specification must make TLC find a counterexample of NeverSkipsMatch"""
    base = open(os.path.join(vlib.SPECS, "cfg", "SparseIndex.exh.quick.cfg")).read()
    rc = 0
    os.makedirs(vlib.WORK, exist_ok=True)
    for dev in MUTATION_SEEDS + AS_IMPLEMENTED:
        cfg = base.replace("Dev = {}", 'Dev = {"%s"}' % dev)
        if dev in ("matchphrase_as_equality", "unknown_op_drops_element", "in_is_error"):
            cfg = cfg.replace("SettingNames <- TwoSettings", "SettingNames <- TwoSettings\n  ExhAtoms <- AllAtoms").replace("MaxRows = 3", "MaxRows = 2")
        if dev == "null_as_minus_infinity":
            cfg = cfg.replace("WithNull = FALSE", "WithNull = TRUE").replace("MaxRows = 3", "MaxRows = 2")
        p = os.path.join(vlib.WORK, f"c20-selftest-{dev}.cfg")
        open(p, "w").write(cfg)
        r = vlib.run_tlc("SparseIndexMC", p, timeout=900)
        ok = r["violated"] in ("NeverSkipsMatch", "MayCoversMatch")
        print(f"SELFTEST property={PROP} Dev={{{dev}}}: TLC reports {r['violated'] or r['error'] or 'no violation'} "
              f"after {r['generated']} states -> {'caught' if ok else 'NOT CAUGHT'}")
        os.remove(p)
        if not ok:
            rc = 1
    return rc
