"""C20 — column-store sparse and skip indexes never prune a block with a match.
Mode A: TLC exhaustively checks specs/SparseIndex.tla (the key-condition algorithm over sorted key records,
        fragments, RPN atoms, mask algebra, key-prefix hyper-rectangles evaluated IN PLACE on one shared slice of
        ranges, binary / exclusion search) for NeverSkipsMatch and MayCoversMatch within the cfg bounds.
Mode B: TLC-generated cases are replayed into the real PKIndexWriterImpl.Build -> NewKeyCondition ->
        PKIndexReaderImpl.Scan with several column types per case and every reader setting; the skip-index readers
        (set, min-max, bloom filter) are driven on the same cases. Three generators:
          * every path of a small BFS config;
          * seeded simulation (up to 3 key columns, 8 rows, condition trees of depth 3 with IN / string operators /
            non-key atoms / time bounds, biased toward 3 key columns and chains reaching the last key column);
          * DIRECTED cases: for every unsound deviation D of the specification (mutation seeds = the slips the
            transcription can express) TLC enumerates small universes and exports the cases that DISTINGUISH D from
            the design (a fragment with a matching row that the design selects and D does not). Real code that has
            slipped the way D describes skips a fragment on every one of them; a deviation without distinguishing
            cases is an infrastructure failure (exit 2).
        Verdict: a fragment with a brute-force matching row that the real code does not select."""
import concurrent.futures as cf
import json, os, random, time
import vlib

PROP = "C20"
# the unsound slips of SparseIndex.tla (SparseIndexMC!UnsoundDevs): each must have distinguishing cases
UNSOUND_DEVS = ["le_as_lt", "ge_as_gt", "or_as_and", "last_fragment_off_by_one", "null_as_minus_infinity",
                "stale_range_between_rectangles", "left_point_stale", "right_point_stale", "last_column_open",
                "right_bound_overwrites", "excl_drops_leftmost", "bin_end_off_by_one"]
PRECISION_DEVS = ["lt_as_le", "and_as_or", "binary_search_always"]
MUTATION_SEEDS = [d for d in UNSOUND_DEVS if d != "right_bound_overwrites"]
AS_IMPLEMENTED = ["right_bound_overwrites", "matchphrase_as_equality", "unknown_op_drops_element", "in_is_error"]
# deviations whose counterexample needs three key columns / the chain conditions of the tiny-domain configuration
THREE_KEY_DEVS = ("stale_range_between_rectangles", "left_point_stale", "right_point_stale")

EXH = {"quick": [("SparseIndex.exh.quick.cfg", 16), ("SparseIndex.exh.quick3c.cfg", 8), ("SparseIndex.exh.quick3.cfg", 4)],
       "thorough": [("SparseIndex.exh.thorough.cfg", 16), ("SparseIndex.exh.thorough3c.cfg", 16), ("SparseIndex.exh.thorough3b.cfg", 8),
                    ("SparseIndex.exh.thorough.ia.cfg", 8), ("SparseIndex.exh.thorough3.cfg", 8)]}
DIRECTED = {"quick": [("SparseIndex.dir.q1.cfg", 8), ("SparseIndex.dir.q2.cfg", 8), ("SparseIndex.dir.q3.cfg", 8)],
            "thorough": [("SparseIndex.dir.t3.cfg", 16), ("SparseIndex.dir.t2.cfg", 8), ("SparseIndex.dir.t1.cfg", 8),
                         ("SparseIndex.dir.q3.cfg", 8)]}
PER_DEV = {"quick": 300, "thorough": 1500}     # directed cases replayed per deviation (all of them when fewer exist)
MIN_PER_DEV = 20                               # fewer distinguishing cases than this for a deviation: exit 2


def _tlc_env():
    # several JVMs run side by side: bound each heap (the default is a quarter of the machine's memory)
    if "-Xmx" not in os.environ.get("JAVA_TOOL_OPTIONS", ""):
        os.environ["JAVA_TOOL_OPTIONS"] = (os.environ.get("JAVA_TOOL_OPTIONS", "") + " -Xmx4g").strip()


def _exh(cfg, workers):
    r = vlib.run_tlc("SparseIndexMC", cfg, workers=workers, timeout=3000)
    vlib.tlc_must_pass(r, cfg)
    return ("exh", cfg, r)


def _sim(n, seed):
    r = vlib.run_tlc("SparseIndexMC", "SparseIndex.sim.cfg", simulate=n, depth=4, seed=seed, timeout=3000)
    vlib.tlc_must_pass(r, f"SparseIndex.sim.cfg seed={seed}")
    return ("sim", seed, r)


def _bfs():
    r = vlib.run_tlc("SparseIndexMC", "SparseIndex.bfs.export.cfg", workers=4, timeout=900)
    vlib.tlc_must_pass(r, "SparseIndex.bfs.export.cfg")
    return ("bfs", None, r)


def _directed(cfg, workers, seed):
    r = vlib.run_tlc("SparseIndexMC", cfg, workers=workers, timeout=3000, extra=["-seed", str(seed)])
    vlib.tlc_must_pass(r, cfg)
    return ("dir", cfg, r)


def _key(h):
    return json.dumps([h[0]["args"], h[1]["args"]], sort_keys=True)


def gen_cases(tier, seed):
    """-> (behaviours, directed: list of (behaviour, [deviations]), stats)"""
    _tlc_env()
    stats = {"exh": [], "directed_runs": []}
    jobs = []
    # long jobs first
    ex0, exrest = EXH[tier][0], EXH[tier][1:]
    jobs.append(lambda: _exh(*ex0))
    for cfg, w in DIRECTED[tier]:
        jobs.append(lambda cfg=cfg, w=w: _directed(cfg, w, seed))
    for cfg, w in exrest:
        jobs.append(lambda cfg=cfg, w=w: _exh(cfg, w))
    jobs.append(_bfs)
    runs = [(2500, seed)] if tier == "quick" else [(4000, seed * 1000 + i) for i in range(8)]
    for n, s in runs:
        jobs.append(lambda n=n, s=s: _sim(n, s))
    behaviours, pool = [], []
    simgen = 0
    with cf.ThreadPoolExecutor(4 if tier == "quick" else 5) as ex:
        for kind, what, r in ex.map(lambda j: j(), jobs):
            if kind == "exh":
                stats["exh"].append({"cfg": what, **{k: r[k] for k in ("generated", "distinct", "depth")}, "wall_s": round(r["wall_s"], 1)})
            elif kind == "bfs":
                behaviours += r["traces"]
                stats["bfs_export"] = {"generated": r["generated"], "distinct": r["distinct"], "traces": len(r["traces"])}
            elif kind == "sim":
                behaviours += r["traces"]
                simgen += r["generated"]
            else:
                pool += r["traces"]
                stats["directed_runs"].append({"cfg": what, "generated": r["generated"], "distinct": r["distinct"],
                                               "distinguishing_cases_exported": len(r["traces"]), "wall_s": round(r["wall_s"], 1)})
    stats["sim"] = {"generated": simgen, "traces": sum(n for n, _ in runs), "runs": len(runs)}
    # --- directed cases: per deviation, a seeded sample of what TLC exported
    by_dev = {d: [] for d in UNSOUND_DEVS}
    seen = set()
    uniq = []
    for h in pool:
        kx = _key(h)
        if kx in seen:
            continue
        seen.add(kx)
        uniq.append(h)
        for d in h[2]["args"]["dist"]:
            by_dev.setdefault(d, []).append(len(uniq) - 1)
    rng = random.Random(seed)
    chosen = {}
    per_dev = {}
    for d in sorted(by_dev):
        idx = by_dev[d]
        pick = idx if len(idx) <= PER_DEV[tier] else rng.sample(idx, PER_DEV[tier])
        for i in pick:
            chosen.setdefault(i, []).append(d)
        per_dev[d] = {"exported": len(idx), "picked": len(pick)}
    directed = [(uniq[i], sorted(set(uniq[i][2]["args"]["dist"]))) for i in sorted(chosen)]
    stats["directed"] = per_dev
    missing = [d for d in UNSOUND_DEVS if per_dev.get(d, {}).get("exported", 0) < MIN_PER_DEV]
    if missing:
        raise vlib.Infra(f"no (or fewer than {MIN_PER_DEV}) distinguishing cases for the deviations {missing}: the directed universes "
                         f"do not decide these slip classes (exported: { {d: per_dev.get(d, {}).get('exported', 0) for d in missing} })")
    return behaviours, directed, stats


def replay_cases(cases):
    vh = vlib.build_vh()
    results, errs = vlib.run_vh_parallel(vh, ["replay-sparse"], cases)
    if errs:
        raise vlib.Infra(f"harness process failed: {errs[0]}")
    if len(results) != len(cases):
        raise vlib.Infra(f"harness returned {len(results)} results for {len(cases)} cases")
    return results


def _nontrivial(h):
    """a case is non-trivial if some row matches and the specification does not select everything"""
    exp = h[2]["exp"]
    nf = h[0]["exp"]["nf"]
    return len(exp["match"]) > 0 and any(len(s) < nf for s in exp["sel"].values())


def run(tier, seed):
    t0 = time.time()
    behaviours, directed, stats = gen_cases(tier, seed)
    t_gen = time.time() - t0
    nvar = 3 if tier == "quick" else 4
    allb = behaviours + [h for h, _ in directed]
    cases = [{"id": i, "seed": seed, "hist": h, "variants": nvar, "skip": True} for i, h in enumerate(allb)]
    dist_of = {len(behaviours) + j: ds for j, (_, ds) in enumerate(directed)}
    results = replay_cases(cases)
    hang = [r for r in results if r.get("hang")]
    if hang:
        raise vlib.Infra(f"harness case hung: {hang[0]}")
    infra = [r for r in results if r.get("infra")]
    if infra:
        raise vlib.Infra(f"harness infra error: {infra[0]['infra'][:2000]}")
    bad = [r for r in results if not r["ok"]]
    open_ids = {f["id"] for f in vlib.load_known(PROP)}
    known_n, known_ex, known_cases = {}, {}, {}
    for r in results:
        for kid, ex in (r.get("known") or {}).items():
            if kid not in open_ids:     # attributed to something that is not a listed open finding
                if r["ok"]:
                    r["ok"] = False
                    r["detail"] = f"divergence matches the deviation model of {kid}, which is not an open finding: {ex}"
                    bad.append(r)
                continue
            known_n[kid] = known_n.get(kid, 0) + r["known_n"][kid]
            known_cases[kid] = known_cases.get(kid, 0) + 1
            known_ex.setdefault(kid, ex)
    for kid in sorted(known_n):
        print(f"KNOWN-FINDING: property={PROP} {kid} re-observed in {known_cases[kid]} cases ({known_n[kid]} evaluations), e.g. {known_ex[kid][:420]}")
    byid = {c["id"]: c for c in cases}
    # violations: the directed ones first (they name the slip class)
    bad.sort(key=lambda r: (r["id"] not in dist_of, r["id"]))
    for r in bad[:5]:
        path = vlib.save_replay(PROP, {"case": byid[r["id"]], "result": {k: r.get(k) for k in ("id", "step", "action", "detail")}})
        print(f"VIOLATION property={PROP} replay={path}")
        if r["id"] in dist_of:
            vlib.log(f"(directed case: distinguishes the design from the deviations {dist_of[r['id']]} of SparseIndex.tla)")
        vlib.log(r["detail"][:3000])
    # per deviation: what was exported, replayed, and how the real code behaved on it
    per_dev = stats["directed"]
    for d in per_dev:
        per_dev[d].update({"replayed": 0, "real_scans": 0, "real_scans_equal_to_design": 0, "real_scans_unsound": 0, "cases_with_violation": 0})
    for r in results:
        for d in dist_of.get(r["id"], []):
            e = per_dev[d]
            e["replayed"] += 1
            e["real_scans"] += r.get("scans", 0)
            e["real_scans_equal_to_design"] += r.get("exact", 0)
            e["real_scans_unsound"] += r.get("unsound", 0)
            e["cases_with_violation"] += 0 if r["ok"] else 1
    vlib.log("[C20] directed cases per deviation (exported by TLC / replayed into the real code / cases with a violation): " +
             ", ".join(f"{d} {e['exported']}/{e['replayed']}/{e['cases_with_violation']}" for d, e in sorted(per_dev.items())))
    tot = lambda k: sum(r.get(k, 0) for r in results)
    distinct = len({_key(h) for h in allb})
    nontrivial = len({_key(h) for h in allb if _nontrivial(h)})
    cov = {
        "states": sum(e["distinct"] for e in stats["exh"]), "transitions": sum(e["generated"] for e in stats["exh"]),
        "traces_validated_against_impl": len(results),
        "samples": [behaviours[0], behaviours[-1], directed[0][0]] if behaviours and directed else [],
        "exhaustive": True,
        "evaluations": tot("scans") + tot("skip_eval"), "distinct_nontrivial": nontrivial,
        "rule": "cases = (sorted key record, fragment size, column types, condition tree, time bounds) of SparseIndex.tla: all BFS paths of "
                "the small export config + seeded simulation + directed cases (per unsound deviation D of the specification, the cases "
                "of small universes in which the design selects a fragment with a matching row and D does not); evaluations = real "
                "Scan calls (case x column-type variant x reader setting) + skip-index MayBeInFragment calls; distinct_nontrivial = "
                "distinct (record, condition) pairs in which some row matches and the specification prunes at least one fragment",
        "tlc": stats,
        "directed_cases": len(directed),
        "directed_per_deviation": per_dev,
        "distinct_cases": distinct,
        "variants": tot("variants"), "scans": tot("scans"), "scans_equal_to_spec": tot("exact"),
        "scans_sound_but_different_from_spec": tot("drift"),
        "scans_unsound_attributed_or_not": tot("unsound"), "scans_failed_attributed_or_not": tot("failed"),
        "scans_that_modified_the_index_record": tot("mutated"),
        "skip_index_evaluations": tot("skip_eval"), "skip_index_negative_answers": tot("skip_neg"),
        "known_finding_evaluations": known_n,
        "wall_generation_s": round(t_gen, 1),
    }
    vlib.write_evidence(PROP, tier, seed, "model_checking", cov, time.time() - t0, len(bad), [
        "TLC bounds as in the cfg files named under coverage.tlc; key values 0..2 and null (= +infinity, sorted last)",
        "pure API: PKIndexWriterImpl.Build, NewKeyCondition, PKIndexReaderImpl.Scan in process; records are handed over sorted "
        "(null last, the order the index reader assumes); the column-store write path rejects null primary keys",
        "row-level truth: comparisons with null are false, an atom on a non-key column may be true, matchphrase as decided by the "
        "row filter's token finder, like/match true when the literal equals the value",
        "skip indexes: set and bloom-filter readers on what the real writers produce; the min-max reader (no production ReadFunc, "
        "writer writes nothing) is given the sorted first key column and is not driven with null bounds",
        "directed cases decide the slip classes the specification can express (its Dev switches); a slip outside these classes is "
        "only met by the BFS paths and the simulation",
    ])
    return 1 if bad else 0


def replay(path, seed):
    obj = json.load(open(path))
    res = replay_cases([obj["case"]])
    r = res[0]
    if r.get("infra"):
        raise vlib.Infra(r["infra"])
    open_ids = {f["id"] for f in vlib.load_known(PROP)}
    for kid, ex in (r.get("known") or {}).items():
        if kid in open_ids:
            print(f"KNOWN-FINDING: property={PROP} {kid} {ex[:420]}")
        else:
            r["ok"] = False
            r["detail"] = f"divergence matches the deviation model of {kid}, which is not an open finding: {ex}"
    if not r["ok"]:
        print(f"VIOLATION property={PROP} replay={path}")
        vlib.log(r["detail"][:3000])
        return 1
    print("replay passes")
    return 0


def selftest(seed):
    """every unsound deviation of the specification must make TLC find a counterexample of NeverSkipsMatch; the
    precision-only deviations must pass, and no case of a directed universe may distinguish them"""
    _tlc_env()
    cfgdir = os.path.join(vlib.SPECS, "cfg")
    base = open(os.path.join(cfgdir, "SparseIndex.exh.quick.cfg")).read()
    base3 = open(os.path.join(cfgdir, "SparseIndex.exh.quick3c.cfg")).read()
    rc = 0
    os.makedirs(vlib.WORK, exist_ok=True)

    def one(dev):
        cfg = (base3 if dev in THREE_KEY_DEVS else base).replace("Dev = {}", 'Dev = {"%s"}' % dev)
        if dev in ("matchphrase_as_equality", "unknown_op_drops_element", "in_is_error"):
            cfg = cfg.replace("SettingNames <- TwoSettings", "SettingNames <- TwoSettings\n  ExhAtoms <- AllAtoms").replace("MaxRows = 3", "MaxRows = 2")
        if dev == "null_as_minus_infinity":
            cfg = cfg.replace("WithNull = FALSE", "WithNull = TRUE").replace("MaxRows = 3", "MaxRows = 2")
        p = os.path.join(vlib.WORK, f"c20-selftest-{os.getpid()}-{dev}.cfg")
        open(p, "w").write(cfg)
        try:
            return dev, vlib.run_tlc("SparseIndexMC", p, workers=8, timeout=1800)
        finally:
            os.remove(p)

    with cf.ThreadPoolExecutor(3) as ex:
        for dev, r in ex.map(one, UNSOUND_DEVS + [d for d in AS_IMPLEMENTED if d not in UNSOUND_DEVS]):
            ok = r["violated"] in ("NeverSkipsMatch", "MayCoversMatch")
            print(f"SELFTEST property={PROP} Dev={{{dev}}}: TLC reports {r['violated'] or r['error'] or 'no violation'} "
                  f"after {r['generated']} states -> {'caught' if ok else 'NOT CAUGHT'}", flush=True)
            rc |= 0 if ok else 1
        for dev, r in ex.map(one, PRECISION_DEVS):
            ok = r["finished"] and not r["violated"] and not r["error"]
            print(f"SELFTEST property={PROP} Dev={{{dev}}} (loses precision only): TLC reports {r['violated'] or r['error'] or 'no violation'} "
                  f"after {r['generated']} states -> {'as expected' if ok else 'UNEXPECTED'}", flush=True)
            rc |= 0 if ok else 1
    # no case of the two-key directed universe distinguishes a precision-only deviation
    cfg = open(os.path.join(cfgdir, "SparseIndex.dir.q2.cfg")).read()
    cfg = cfg.replace("DistDevs <- TwoKeyDevs", "DistDevs <- PrecisionDevs").replace("  Thin <- ThinQ2\n", "").replace("ExportDist", "NoneDistinguishes")
    p = os.path.join(vlib.WORK, f"c20-selftest-{os.getpid()}-precision.cfg")
    open(p, "w").write(cfg)
    r = vlib.run_tlc("SparseIndexMC", p, workers=8, timeout=1800, extra=["-seed", str(seed)])
    os.remove(p)
    ok = r["finished"] and not r["violated"] and not r["error"]
    print(f"SELFTEST property={PROP} precision-only deviations {PRECISION_DEVS}: no distinguishing case among {r['generated']} states "
          f"-> {'as expected' if ok else 'UNEXPECTED: ' + str(r['violated'] or r['error'])}")
    rc |= 0 if ok else 1
    return rc
