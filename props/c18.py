"""C18 - PromQL queries return what Prometheus itself returns on the same samples.
Mode A: TLC exhaustively checks specs/PromSem.tla over a tiny universe (every layout of one or two series: absent / value /
        staleness marker at every tick) x the law queries: Laws (instant selector, offset, matchers, *_over_time, rate /
        increase extrapolation, aggregation, comparison) and RangeEqInstants (the incremental, sliding-buffer range
        evaluation equals the sequence of direct instant evaluations).  Every Dev name must give a counterexample.
Mode B: TLC evaluates (sample set, expression, time | start/end/step) cases in exact rational arithmetic (seeded simulation
        of the grammar + BFS over a fixed sample set + the sentinel of F-C18-7) and exports the expected vectors / matrices.
        SPEC VALIDATION: the same concrete cases are evaluated by the upstream promql.Engine (vh prom-ref); a disagreement
        between the specification and upstream is a specification bug (exit 2).
        REPLAY: every sample set is ingested through POST /api/v1/write (snappy + protobuf remote write) into a real
        single-node ts-server, every case is asked through GET /api/v1/query[_range]; series, label sets, time stamps and
        values (relative tolerance 1e-9) are compared with the expectation.  A divergence is attributed to an open finding
        only if the answer equals exactly what the finding's deviation model of the specification predicts, or - for the
        two range-evaluation findings whose wrong answers depend on record boundaries - if the server's OWN instant
        queries at every step are right (so the divergence is a RangeEqInstants violation of the server) and the
        expression is in the finding's predicate."""
import concurrent.futures as cf
import fractions, hashlib, http.client, json, math, os, random, struct, subprocess, sys, threading, time, urllib.parse
import vlib
sys.path.insert(0, os.path.join(vlib.ROOT, "tools"))
import vserver

PROP = "C18"
MC = "PromSemMC"
DEVS_SEED = ["lookback_left_open", "range_left_open", "offset_sign", "stale_looks_through", "rate_no_reset",
             "extrap_no_zero_clamp", "rate_not_per_second", "without_keeps_name", "slide_no_drop", "slide_reappend",
             "minmax_first_nan_sticks", "sum_skips_nan", "agg_minmax_keeps_nan", "nan_hidden_like_stale"]
DEVS_IMPL = ["empty_matcher_ignored", "regex_unanchored", "nested_bool_filters", "unknown_label_ignored", "gap_sample_runaway",
             "one_partition_answers", "nan_passes_comparison", "minmax_sentinel_leaks"]
DEV_INV = {"slide_no_drop": "RangeEqInstants", "slide_reappend": "RangeEqInstants", "gap_sample_runaway": "RangeEqInstants"}
FINDING_OF_DEV = {"empty_matcher_ignored": "F-C18-1", "regex_unanchored": "F-C18-2", "nested_bool_filters": "F-C18-3",
                  "unknown_label_ignored": "F-C18-4", "gap_sample_runaway": "F-C18-7", "one_partition_answers": "F-C18-8",
                  "nan_passes_comparison": "F-C18-10", "minmax_sentinel_leaks": "F-C18-11"}
F_BINOP, F_AGGOFF, F_MULTIPT, F_SEGMENTS = "F-C18-5", "F-C18-6", "F-C18-8", "F-C18-9"
DB = "prom0"
TOL = fractions.Fraction(1, 10 ** 9)

# ---------------------------------------------------------------------------------------------------
# TLC


def java_opts():
    """deep (not infinite) recursion of TLC over sets of nested records needs a larger thread stack; heaps are capped
    because several TLC instances run side by side"""
    o = os.environ.get("JAVA_TOOL_OPTIONS", "")
    if "-Xss" not in o:
        o += " -Xss64m"
    if "-Xmx" not in o:
        o += " -Xmx4g"
    os.environ["JAVA_TOOL_OPTIONS"] = o.strip()


def tlc(cfg, **kw):
    java_opts()
    r = vlib.run_tlc(MC, cfg, **kw)
    vlib.tlc_must_pass(r, os.path.basename(cfg))
    return r


def dev_cfg(dev):
    """cfg of one deviation: the quick exhaustive universe with Dev = {dev}"""
    txt = open(os.path.join(vlib.SPECS, "cfg", "PromSem.exh.quick.cfg")).read()
    txt = txt.replace("Dev = {}", 'Dev = {"%s"}' % dev)
    if DEV_INV.get(dev) == "RangeEqInstants":
        txt = txt.replace("QueryChoices <- LawQueries", "QueryChoices <- LawRangeQueries")
    os.makedirs(vlib.WORK, exist_ok=True)
    p = os.path.join(vlib.WORK, f"PromSem.dev.{dev}.{os.getpid()}.cfg")
    open(p, "w").write(txt)
    return p


def check_devs(workers=2):
    """vacuity guard: every deviation name must make TLC report a counterexample"""
    out = {}

    java_opts()

    def one(dev):
        p = dev_cfg(dev)
        try:
            r = vlib.run_tlc(MC, p, workers=workers, timeout=900, depth_first=DEV_INV.get(dev) == "RangeEqInstants")
        finally:
            os.remove(p)
        want = DEV_INV.get(dev, "Laws")
        if r["violated"] != want:
            raise vlib.Infra(f"Dev={{{dev}}}: expected a counterexample to {want}, TLC says violated={r['violated']} "
                             f"error={r['error']}\n" + r["out"][-1500:])
        return dev, {"invariant": want, "states": r["generated"], "wall_s": round(r["wall_s"], 1)}
    with cf.ThreadPoolExecutor(4) as ex:
        for dev, st in ex.map(one, DEVS_SEED + DEVS_IMPL):
            out[dev] = st
    return out


def sample_cfg(seed, stride):
    txt = open(os.path.join(vlib.SPECS, "cfg", "PromSem.bfs.export.cfg")).read()
    txt = txt.replace("BfsStride = 1", f"BfsStride = {stride}").replace("BfsOff = 0", f"BfsOff = {seed % stride}")
    txt = txt.replace("QueryChoices <- BfsQueries", "QueryChoices <- BfsSample")
    p = os.path.join(vlib.WORK, f"PromSem.bfs.sample.{os.getpid()}.cfg")
    os.makedirs(vlib.WORK, exist_ok=True)
    open(p, "w").write(txt)
    return p


def gen_cases(tier, seed):
    quick = tier == "quick"
    stats = {}
    exh = "PromSem.exh.quick.cfg" if quick else "PromSem.exh.thorough.cfg"
    nsim, nsimr = (24, 12) if quick else (150, 80)
    stride = 5 if quick else 1
    bcfg = sample_cfg(seed, stride)
    try:
        with cf.ThreadPoolExecutor(6) as ex:
            f_exh = ex.submit(tlc, exh, workers=4 if quick else 8, timeout=2400)
            f_dev = ex.submit(check_devs, 1 if quick else 2)
            f_sim = ex.submit(tlc, "PromSem.sim.cfg", simulate=nsim, depth=150, seed=seed, timeout=2400)
            f_simr = ex.submit(tlc, "PromSem.sim.range.cfg", simulate=nsimr, depth=150, seed=seed + 7919, timeout=2400)
            f_bfs = ex.submit(tlc, bcfg, workers=2, timeout=2400)
            f_sen = ex.submit(tlc, "PromSem.bfs.sentinel.cfg", workers=1, timeout=600)
            f_exh2 = None if quick else ex.submit(tlc, "PromSem.exh.thorough2.cfg", workers=6, timeout=2400)
            r_exh, devs, r_sim, r_simr, r_bfs, r_sen = (f.result() for f in (f_exh, f_dev, f_sim, f_simr, f_bfs, f_sen))
            r_exh2 = f_exh2.result() if f_exh2 else None
    finally:
        if os.path.exists(bcfg):
            os.remove(bcfg)
    stats["exh"] = {k: r_exh[k] for k in ("generated", "distinct", "depth", "wall_s")} | {"cfg": exh}
    if r_exh2:
        stats["exh2"] = {k: r_exh2[k] for k in ("generated", "distinct", "depth", "wall_s")} | {"cfg": "PromSem.exh.thorough2.cfg"}
    stats["devs"] = devs
    stats["sim"] = {"behaviours": len(r_sim["traces"]), "num": nsim, "wall_s": r_sim["wall_s"]}
    stats["sim_range"] = {"behaviours": len(r_simr["traces"]), "num": nsimr, "wall_s": r_simr["wall_s"]}
    stats["bfs"] = {"behaviours": len(r_bfs["traces"]), "stride": stride, "wall_s": r_bfs["wall_s"]}
    stats["sentinel"] = {"behaviours": len(r_sen["traces"])}
    # data sets with their queries
    sets, order = {}, []

    def add(h, src):
        d = h[0]
        key = json.dumps(d, sort_keys=True)
        if key not in sets:
            sets[key] = {"data": d, "cases": {}, "src": src}
            order.append(key)
        for e in h[1:]:
            if e.get("a") in ("instant", "range"):
                qk = json.dumps({k: v for k, v in e.items() if k not in ("exp", "known")}, sort_keys=True)
                sets[key]["cases"].setdefault(qk, e)
    for h in r_sim["traces"]:
        add(h, "sim")
    for h in r_simr["traces"]:
        add(h, "sim")
    for h in r_bfs["traces"]:
        add(h, "bfs")
    for h in r_sen["traces"]:
        add(h, "sentinel")
    out = [{"data": sets[k]["data"], "cases": list(sets[k]["cases"].values()), "src": sets[k]["src"]} for k in order]
    out = [s for s in out if s["cases"]]
    stats["data_sets"] = len(out)
    stats["cases"] = sum(len(s["cases"]) for s in out)
    stats["skipped_draws"] = sum(1 for r in (r_sim, r_simr) for h in r["traces"] for e in h[1:] if e.get("a") == "skip")
    return out, stats


# ---------------------------------------------------------------------------------------------------
# remote write payload: protobuf prompb.WriteRequest, snappy block format with literal elements only

STALE_BITS = struct.pack("<Q", 0x7ff0000000000002)        # value.StaleNaN
NAN_BITS = struct.pack("<Q", 0x7ff8000000000001)          # value.NormalNaN: an ordinary NaN sample (what 0/0 in an exporter gives)
STALE = -9999
NAN = -8888                                               # PromSem.tla NAN: sample value code of an ordinary NaN


def varint(n):
    out = bytearray()
    while True:
        b = n & 0x7f
        n >>= 7
        if n:
            out.append(b | 0x80)
        else:
            out.append(b)
            return bytes(out)


def pb_bytes(field, data):
    return varint((field << 3) | 2) + varint(len(data)) + data


def pb_write_request(series):
    """series: [{"labels": {..}, "samples": [[t_ms, float | "stale" | "nan"]]}]"""
    out = b""
    for s in series:
        ts = b""
        for k in sorted(s["labels"]):
            ts += pb_bytes(1, pb_bytes(1, k.encode()) + pb_bytes(2, s["labels"][k].encode()))
        for t, v in s["samples"]:
            vb = STALE_BITS if v == "stale" else NAN_BITS if v == "nan" else struct.pack("<d", float(v))
            ts += pb_bytes(2, varint((1 << 3) | 1) + vb + varint((2 << 3) | 0) + varint(t & 0xffffffffffffffff))
        out += pb_bytes(1, ts)
    return out


def snappy_literal(data):
    out = bytearray(varint(len(data)))
    for i in range(0, len(data), 60):
        chunk = data[i:i + 60]
        out.append((len(chunk) - 1) << 2)
        out += chunk
    return bytes(out)


# ---------------------------------------------------------------------------------------------------
# concretisation

OPS = {"add": "+", "sub": "-", "mul": "*", "div": "/", "eq": "==", "ne": "!=", "gt": ">", "lt": "<", "ge": ">=", "le": "<="}
MOPS = {"eq": "=", "ne": "!=", "re": "=~", "nre": "!~"}


class Conc:
    """seeded concrete image of one abstract sample set: metric names, time origin"""

    def __init__(self, idx, data, seed):
        self.idx, self.data = idx, data
        self.unit = data["unit"]
        self.u = self.unit * 1000
        self.lookback = data["lookback"]
        key = hashlib.sha1(json.dumps(data, sort_keys=True).encode()).hexdigest()[:10]
        rnd = random.Random(f"{seed}-{key}")
        if data.get("epoch", 0) > 0:
            self.base = data["epoch"] * self.u
        else:
            # a whole number of minutes, so that every tick is a whole number of seconds; sometimes shortly before a
            # week boundary (default shard group duration), so that a sample set spans two shard groups
            week = 7 * 86400 * 1000
            b = 1_700_000_000_000 // 60000 * 60000 + rnd.randrange(0, 10 ** 6) * 60000
            if rnd.random() < 0.35:
                b = (b // week + 1) * week - rnd.randrange(3, 20) * self.u
            self.base = b

    def metric(self, m):
        return f"{m}_{self.idx}"

    def t(self, t):
        return self.base + t * self.u

    def series(self):
        out = []
        for s in self.data["series"]:
            lab = dict(lab_of(s["lab"]))
            lab["__name__"] = self.metric(lab["__name__"])
            out.append({"labels": lab, "samples": [[self.t(t), "stale" if v == STALE else "nan" if v == NAN else float(v)]
                                                   for t, v in s["pts"]]})
        return out

    def dur(self, ticks):
        return f"{ticks * self.unit}s"

    def render(self, e):
        k = e["k"]
        if k == "num":
            return str(e["v"])
        if k == "sel":
            return self.render_sel(e, 0)
        if k == "rfn":
            return f"{e['fn']}({self.render_sel(e['arg'], e['r'])})"
        if k == "agg":
            mod = "" if e["mode"] == "none" else f" {e['mode']} ({', '.join(sorted(e['ls']))}) "
            return f"{e['op']}{mod}({self.render(e['arg'])})"
        if k == "bin":
            op = OPS[e["op"]] + (" bool" if e["bool"] else "")
            if e["vm"] != "none":
                op += f" {e['vm']}({', '.join(sorted(e['vls']))})"
            return f"({self.render(e['l'])}) {op} ({self.render(e['r'])})"
        raise ValueError(k)

    def render_sel(self, e, r):
        ms = ", ".join(f'{m["l"]}{MOPS[m["op"]]}"{m["v"]}"' for m in e["ms"])
        s = self.metric(e["m"]) + ("{" + ms + "}" if ms else "")
        if r:
            s += f"[{self.dur(r)}]"
        if e["off"]:
            s += f" offset {self.dur(e['off'])}"
        return s

    def params(self, c):
        """HTTP parameters of a case"""
        p = {"db": DB, "query": self.render(c["e"]), "lookback-delta": self.dur(self.lookback)}
        if c["a"] == "instant":
            p["time"] = "%.3f" % (self.t(c["t"]) / 1000)
            return "/api/v1/query", p
        p["start"] = "%.3f" % (self.t(c["start"]) / 1000)
        p["end"] = "%.3f" % (self.t(c["end"]) / 1000)
        p["step"] = "%d" % (c["step"] * self.unit)
        return "/api/v1/query_range", p

    def ref_query(self, qid, c):
        q = {"qid": qid, "expr": self.render(c["e"])}
        if c["a"] == "instant":
            q["time_ms"] = self.t(c["t"])
        else:
            q["start_ms"], q["end_ms"], q["step_ms"] = self.t(c["start"]), self.t(c["end"]), c["step"] * self.u
        return q


def lab_of(lab):
    """ToJson prints a function with an empty domain as []"""
    return lab if isinstance(lab, dict) else {}


def steps_of(c):
    if c["a"] == "instant":
        return [c["t"]]
    return list(range(c["start"], c["end"] + 1, c["step"]))


def exp_series(conc, c, ans):
    """the specification's answer as [{labels, points [[t_ms, (n, d)]]}] with concrete metric names and times"""
    out = []
    for s in ans:
        lab = dict(lab_of(s["lab"]))
        if "__name__" in lab:
            lab["__name__"] = conc.metric(lab["__name__"])
        if c["a"] == "instant":
            pts = [[conc.t(c["t"]), (s["n"], s["d"])]]
        else:
            pts = [[conc.t(t), (n, d)] for t, n, d in s["pts"]]
        out.append({"labels": lab, "points": pts})
    return out


def val_eq(act, nd):
    n, d = nd
    if d == 0:
        if n == 0:
            return math.isnan(act)
        if abs(n) == 2:        # PromSem.tla Huge / NHuge: +-math.MaxFloat64, exactly
            return act == (sys.float_info.max if n > 0 else -sys.float_info.max)
        return math.isinf(act) and (act > 0) == (n > 0)
    if math.isnan(act) or math.isinf(act):
        return False
    e = fractions.Fraction(n, d)
    return abs(fractions.Fraction(act) - e) <= TOL * max(abs(e), 1)


def diff_answer(act, exp):
    """'' or the first difference; act: [{labels, points [[t_ms, float]]}], exp: [{labels, points [[t_ms, (n, d)]]}]"""
    def key(s):
        return tuple(sorted(s["labels"].items()))
    am, em = {}, {}
    for s in act:
        if key(s) in am:
            return f"series {dict(key(s))} returned twice"
        am[key(s)] = s
    for s in exp:
        em[key(s)] = s
    if set(am) != set(em):
        return f"series {[dict(k) for k in sorted(am)]} returned, expected {[dict(k) for k in sorted(em)]}"
    for k in sorted(em):
        a, e = am[k]["points"], em[k]["points"]
        if [p[0] for p in a] != [p[0] for p in e]:
            return f"series {dict(k)}: time stamps {[p[0] for p in a]} expected {[p[0] for p in e]}"
        for (t, av), (_, ev) in zip(a, e):
            if not val_eq(av, ev):
                return f"series {dict(k)} at {t}: {av!r} expected {ev[0]}/{ev[1]}"
    return ""


def parse_prom(body):
    """/api/v1/query[_range] answer -> (error, result type, [{labels, points [[t_ms, float]]}])"""
    try:
        d = json.loads(body)
    except Exception:
        return "unparsable answer: " + body[:200], None, []
    if d.get("status") != "success":
        return "error answer: " + str(d.get("error", body[:200])), None, []
    data = d.get("data") or {}
    ty = data.get("resultType")
    out = []
    try:
        if ty == "scalar":
            t, v = data["result"]
            out.append({"labels": {}, "points": [[round(float(t) * 1000), float(v)]]})
        else:
            for s in data.get("result") or []:
                pts = [s["value"]] if "value" in s else s.get("values", [])
                out.append({"labels": s.get("metric") or {}, "points": [[round(float(t) * 1000), float(v)] for t, v in pts]})
    except Exception as ex:   # noqa
        return f"malformed answer ({ex}): " + body[:200], ty, []
    return None, ty, out


# ---------------------------------------------------------------------------------------------------
# spec validation against the upstream engine

def validate_spec(vh, sets, concs):
    """every exported case is evaluated by the upstream promql engine; the specification must agree with it"""
    cases = []
    for si, (s, conc) in enumerate(zip(sets, concs)):
        cases.append({"id": si, "lookback_ms": conc.lookback * conc.u, "series": [
            {"labels": x["labels"], "samples": [[t, v if v == "stale" else "NaN" if v == "nan" else repr(v)] for t, v in x["samples"]]}
            for x in conc.series()],
            "queries": [conc.ref_query(ci, c) for ci, c in enumerate(s["cases"])]})
    chunks = [cases[i::8] for i in range(8) if cases[i::8]]

    def run(chunk):
        inp = "\n".join(json.dumps(c) for c in chunk) + "\n"
        p = subprocess.run([vh, "prom-ref"], input=inp, capture_output=True, text=True, timeout=1200)
        if p.returncode != 0:
            raise vlib.Infra("vh prom-ref failed: " + p.stderr[-2000:])
        return [json.loads(line) for line in p.stdout.splitlines() if line.startswith('{"id"')]
    got = {}
    with cf.ThreadPoolExecutor(8) as ex:
        for res in ex.map(run, chunks):
            for d in res:
                got[d["id"]] = d["results"]
    n = 0
    for si, (s, conc) in enumerate(zip(sets, concs)):
        if si not in got or len(got[si]) != len(s["cases"]):
            raise vlib.Infra(f"vh prom-ref returned no / incomplete results for data set {si}")
        for c, rr in zip(s["cases"], got[si]):
            n += 1
            text = conc.render(c["e"])
            if rr["error"]:
                raise vlib.Infra(f"SPEC BUG: upstream refuses a generated case: [{text}] {rr['error']} (data set {si}: {json.dumps(s['data'])[:600]})")
            act = [{"labels": x["labels"], "points": [[p[0], float(p[1])] for p in x["points"]]} for x in rr["series"]]
            d = diff_answer(act, exp_series(conc, c, c["exp"]))
            want_ty = "scalar" if (c["scalar"] and c["a"] == "instant") else ("vector" if c["a"] == "instant" else "matrix")
            if not d and rr["type"] != want_ty:
                d = f"result type {rr['type']} expected {want_ty}"
            if d:
                raise vlib.Infra(f"SPEC BUG: the specification disagrees with the upstream engine on [{text}] "
                                 f"{ {k: c[k] for k in ('t', 'start', 'end', 'step') if k in c} }: upstream {d} "
                                 f"(data set {si}: {json.dumps(s['data'])[:900]})")
    return n


# ---------------------------------------------------------------------------------------------------
# the real server

_start_lock = threading.Lock()


class Node:
    def __init__(self, name, conf):
        with _start_lock:
            if not os.path.exists(vserver.build_server()):
                # binaries of scratch trees are shared with the mutation runs of other checks, which may clean them up
                vserver._built.clear()
                vserver.build_server()
            for attempt in range(4):
                self.srv = vserver.Server(extra_conf=conf, name="c18" + name, start=False)
                try:
                    self.srv.start(wait=300)
                    break
                except vlib.Infra as ex:
                    self.srv.stop()
                    if "address already in use" not in str(ex) or attempt == 3:
                        raise
                    time.sleep(0.5 + attempt)
        self.name = name

    def ddl(self, q):
        st, body = self.srv.query(q, method="POST")
        if st != 200 or "error" in json.dumps(body):
            raise vlib.Infra(f"{q}: {st} {body}")

    def prom_write(self, series):
        body = snappy_literal(pb_write_request(series))
        for attempt in range(10):
            st, txt = self.srv.http("POST", "/api/v1/write", {"db": DB}, body=body,
                                    headers={"Content-Encoding": "snappy", "Content-Type": "application/x-protobuf"})
            if st == 204:
                return
            if st >= 500 and ("shard" in txt or "timeout" in txt or "not found" in txt):
                time.sleep(0.4)
                continue
            raise vlib.Infra(f"remote write refused: {st} {txt[:300]}")
        raise vlib.Infra(f"remote write failed after retries: {st} {txt[:300]}")

    def get(self, path, params, timeout=20, cap=4_000_000):
        """GET with a bound on the size of the answer (F-C18-7 answers without end)"""
        c = http.client.HTTPConnection("127.0.0.1", self.srv.port, timeout=timeout)
        try:
            c.request("GET", path + "?" + urllib.parse.urlencode(params))
            r = c.getresponse()
            body = r.read(cap)
            more = r.read(1)
        except (TimeoutError, OSError) as ex:
            if not self.srv.alive():
                raise vlib.Infra("ts-server died:\n" + self.srv.tail_log())
            return 0, json.dumps({"status": "error", "error": f"NO ANSWER within {timeout}s ({ex})"})
        finally:
            c.close()
        if more:
            return r.status, json.dumps({"status": "error", "error": f"RUNAWAY answer of more than {cap} bytes"})
        return r.status, body.decode(errors="replace")

    def stop(self):
        self.srv.stop()


class Run:
    def __init__(self, tier, seed, sets):
        self.tier, self.seed, self.sets = tier, seed, sets
        self.concs = [Conc(i, s["data"], seed) for i, s in enumerate(sets)]
        self.open = {f["id"]: f for f in vlib.load_known(PROP)}
        self.lock = threading.Lock()
        self.results = []           # divergences (attributed or not)
        self.nq = 0
        self.by_phase = {}

    # ---- judging one answer
    def known_exact(self, conc, c, series):
        """finding id(s) whose deviation model predicts exactly this answer"""
        # the smallest combination of open findings whose models predict exactly this answer
        for k in sorted(c.get("known", []), key=lambda k: len(known_ids(k))):
            ids = known_ids(k)
            if all(i in self.open for i in ids) and diff_answer(series, exp_series(conc, c, k["ans"])) == "":
                return join_ids(ids)
        return ""

    def ask(self, node, conc, c, timeout=20):
        path, params = conc.params(c)
        st, body = node.get(path, params, timeout=timeout)
        err, ty, series = parse_prom(body)
        with self.lock:
            self.nq += 1
        return err, ty, series, params

    def instants_right(self, node, conc, c):
        """RangeEqInstants on the server: its own instant answers at every step of the range query c.
        Returns the id suffix of the matrix (ideal or a deviation model of an open finding) that ALL instants agree with,
        or None."""
        cands = [("", c["exp"])] + [(join_ids(known_ids(k)), k["ans"]) for k in sorted(c.get("known", []), key=lambda k: len(known_ids(k)))
                                    if all(i in self.open for i in known_ids(k))]
        answers = []
        for t in steps_of(c):
            ci = {"a": "instant", "e": c["e"], "t": t, "scalar": c["scalar"]}
            err, ty, series, _ = self.ask(node, conc, ci)
            if err:
                return None
            answers.append((t, series))
        for kid, matrix in cands:
            ok = True
            for t, series in answers:
                vec = [{"lab": s["lab"], "n": p[1], "d": p[2]} for s in matrix for p in s["pts"] if p[0] == t]
                ci = {"a": "instant", "t": t}
                if diff_answer(series, exp_series(conc, ci, vec)) != "":
                    ok = False
                    break
            if ok:
                return kid
        return None

    def one(self, node, phase, si, ci):
        conc, c = self.concs[si], self.sets[si]["cases"][ci]
        err, ty, series, params = self.ask(node, conc, c)
        with self.lock:
            self.by_phase[phase] = self.by_phase.get(phase, 0) + 1
        want_ty = "scalar" if (c["scalar"] and c["a"] == "instant") else ("vector" if c["a"] == "instant" else "matrix")
        if err:
            d = err
        else:
            d = diff_answer(series, exp_series(conc, c, c["exp"]))
            if not d and ty != want_ty:
                d = f"result type {ty} expected {want_ty}"
        if not d:
            return
        kid = ""
        if not err:
            kid = self.known_exact(conc, c, series)
        if not kid and c["a"] == "range" and not (err and "RUNAWAY" in err):
            pred = range_predicate(c, self.open)
            if pred:
                base = self.instants_right(node, conc, c)
                if base is not None:
                    kid = join_ids([pred] + (expand_ids(base) if base else []))
        rec = {"set": si, "case": ci, "phase": phase, "query": params["query"], "params": {k: v for k, v in params.items() if k != "query"},
               "detail": d[:1500], "known": kid}
        with self.lock:
            self.results.append(rec)

    # ---- life of the server
    def drive(self, name, conf, flush_first):
        node = Node(name, conf)
        try:
            node.ddl(f"create database {DB}")
            normal = [i for i, s in enumerate(self.sets) if s["src"] != "sentinel"]
            sentinel = [i for i, s in enumerate(self.sets) if s["src"] == "sentinel"]
            for si in normal + sentinel:
                ser = self.concs[si].series()
                if ser:
                    node.prom_write(ser)
            self.wait_visible(node)
            if flush_first:
                node.srv.flush()
                time.sleep(0.5)
            self.round(node, f"{name}/{'flushed' if flush_first else 'memtable'}", normal)
            if self.tier != "quick" and not flush_first:
                node.srv.flush()
                time.sleep(0.5)
                self.round(node, f"{name}/flushed", normal)
            # last: the sentinel of F-C18-7 (the answer is bounded because its samples are one hour after the epoch)
            self.round(node, f"{name}/sentinel", sentinel)
        finally:
            node.stop()

    def round(self, node, phase, set_ids):
        jobs = [(node, phase, si, ci) for si in set_ids for ci in range(len(self.sets[si]["cases"]))]
        with cf.ThreadPoolExecutor(6) as ex:
            for f in [ex.submit(self.one, *j) for j in jobs]:
                f.result()

    def wait_visible(self, node, timeout=90):
        """a new series is visible to queries only after the series index has flushed: every series with a real sample
        must be counted by count_over_time over the whole sample set before anything is judged"""
        todo = {}
        for si, conc in enumerate(self.concs):
            per = {}
            tmax = 0
            for s in self.sets[si]["data"]["series"]:
                real = [p for p in s["pts"] if p[1] != STALE]
                tmax = max([tmax] + [p[0] for p in s["pts"]])
                if real:
                    per[s["lab"]["__name__"]] = per.get(s["lab"]["__name__"], 0) + 1
            for m, n in per.items():
                todo[(si, m)] = (n, tmax)
        t0 = time.time()
        while todo and time.time() - t0 < timeout:
            for (si, m), (n, tmax) in list(todo.items()):
                conc = self.concs[si]
                st, body = node.get("/api/v1/query", {"db": DB, "query": f"count_over_time({conc.metric(m)}[{conc.dur(tmax + 1)}])",
                                                     "time": "%.3f" % (conc.t(tmax) / 1000)})
                err, ty, series = parse_prom(body)
                if not err and len(series) >= n:
                    del todo[(si, m)]
                elif time.time() - t0 > 15 and self.listed(node, conc.metric(m)) >= n:
                    # the series index lists every series (SHOW SERIES, a route that does not pass through the PromQL code under
                    # test) but count_over_time still does not count them: not a lag of the index - the cases are judged
                    del todo[(si, m)]
            if todo:
                time.sleep(0.4)
        if todo:
            raise vlib.Infra(f"series not visible after {timeout}s: {sorted(todo)[:5]}")

    @staticmethod
    def listed(node, metric):
        """number of series of a measurement that SHOW SERIES lists"""
        try:
            st, body = node.srv.query(f'show series from "{metric}"', db=DB)
            return sum(len(x.get("values") or []) for r in body.get("results", []) for x in r.get("series") or [])
        except Exception:   # noqa
            return 0

    def drive_multipt(self):
        """sentinel of F-C18-8: a node with three partitions answers a PromQL query from ONE of them.  Plain instant
        selectors with at least two expected series are asked several times; an answer must be the expected vector or
        (finding) a proper part of it - every returned element exactly as expected"""
        if F_MULTIPT not in self.open:
            return
        picks = [(si, ci) for si, s in enumerate(self.sets) if s["src"] != "sentinel"
                 for ci, c in enumerate(s["cases"]) if c["a"] == "instant" and c["e"]["k"] == "sel" and len(c["exp"]) >= 2
                 and not c.get("known")][:12]
        if not picks:
            return
        node = Node("P", {"meta": {"ptnum-pernode": 3}, "data.memtable": NO_AUTO_FLUSH})
        try:
            node.ddl(f"create database {DB}")
            for si in sorted({si for si, _ in picks}):
                node.prom_write(self.concs[si].series())
            time.sleep(4.0)       # no complete answer can be waited for on this node
            for si, ci in picks:
                conc, c = self.concs[si], self.sets[si]["cases"][ci]
                exp = exp_series(conc, c, c["exp"])
                for rep in range(5):
                    err, ty, series, params = self.ask(node, conc, c)
                    with self.lock:
                        self.by_phase["P/three partitions"] = self.by_phase.get("P/three partitions", 0) + 1
                    if err:
                        d, part = err, False
                    else:
                        d = diff_answer(series, exp)
                        keys = {tuple(sorted(x["labels"].items())) for x in series}
                        sub = [x for x in exp if tuple(sorted(x["labels"].items())) in keys]
                        part = bool(d) and len(series) < len(exp) and diff_answer(series, sub) == ""
                    if d:
                        with self.lock:
                            self.results.append({"set": si, "case": ci, "phase": "P/three partitions", "query": params["query"],
                                                 "params": {k: v for k, v in params.items() if k != "query"},
                                                 "detail": d[:1500], "known": F_MULTIPT if part else ""})
                        break
        finally:
            node.stop()

    def drive_segments(self):
        """sentinel of F-C18-9: files with tiny segments (max-rows-per-segment = 4).  Cases over series with more than four
        samples that the default servers answered right in every phase are asked once more on such a server after a flush;
        a different answer there is a dependence on segment boundaries.  Stops after a few re-observations."""
        if F_SEGMENTS not in self.open:
            return
        wrong = {(r["set"], r["case"]) for r in self.results}
        picks = []
        for si, s in enumerate(self.sets):
            if s["src"] == "sentinel" or not any(len(x["pts"]) > 4 for x in s["data"]["series"]):
                continue
            for ci, c in enumerate(s["cases"]):
                if (si, ci) not in wrong and c["exp"] and c["e"]["k"] in ("sel", "rfn"):
                    picks.append((si, ci))
        rnd = random.Random(self.seed)
        rnd.shuffle(picks)
        # range queries (and among them those with an offset) are the ones that show the dependence most often
        picks.sort(key=lambda p: (self.sets[p[0]]["cases"][p[1]]["a"] != "range",
                                  not any(offset_of(n) for n in walk(self.sets[p[0]]["cases"][p[1]]["e"]))))
        picks = picks[:60 if self.tier == "quick" else 300]
        if not picks:
            return
        node = Node("S", {"data": {"max-rows-per-segment": 4}, "data.memtable": NO_AUTO_FLUSH})
        seen = 0
        try:
            node.ddl(f"create database {DB}")
            for si in sorted({si for si, _ in picks}):
                node.prom_write(self.concs[si].series())
            time.sleep(4.0)
            node.srv.flush()
            time.sleep(1.0)
            for si, ci in picks:
                conc, c = self.concs[si], self.sets[si]["cases"][ci]
                err, ty, series, params = self.ask(node, conc, c, timeout=10)
                with self.lock:
                    self.by_phase["S/tiny segments"] = self.by_phase.get("S/tiny segments", 0) + 1
                d = err or diff_answer(series, exp_series(conc, c, c["exp"]))
                if d:
                    seen += 1
                    with self.lock:
                        self.results.append({"set": si, "case": ci, "phase": "S/tiny segments", "query": params["query"],
                                             "params": {k: v for k, v in params.items() if k != "query"},
                                             "detail": d[:1500], "known": F_SEGMENTS})
                    if seen >= 3 or (err and "NO ANSWER" in err):
                        break
        finally:
            node.stop()

    def run(self, confs):
        errs = []

        def work(name):
            try:
                conf, flush_first = confs[name]
                self.drive(name, conf, flush_first)
            except BaseException as ex:   # noqa
                errs.append(ex)
        def work_p():
            try:
                self.drive_multipt()
            except BaseException as ex:   # noqa
                errs.append(ex)
        ths = [threading.Thread(target=work, args=(n,)) for n in confs] + [threading.Thread(target=work_p)]
        for t in ths:
            t.start()
        for t in ths:
            t.join()
        if not errs:
            try:
                self.drive_segments()
            except BaseException as ex:   # noqa
                errs.append(ex)
        for e in errs:
            if not isinstance(e, vlib.Infra):
                raise e
        if errs:
            raise errs[0]


def expand_ids(kid):
    """'F-C18-1+2+4' -> ['F-C18-1', 'F-C18-2', 'F-C18-4']"""
    parts = kid.split("+")
    return [parts[0]] + ["F-C18-" + x for x in parts[1:]]


def join_ids(ids):
    """['F-C18-4', 'F-C18-10'] -> 'F-C18-4+10'"""
    ids = sorted(set(ids), key=lambda i: int(i.rsplit("-", 1)[1]))
    return ids[0] + "".join("+" + i.replace("F-C18-", "") for i in ids[1:])


def known_ids(k):
    """finding ids behind a predicted answer: the models of the specification that are relevant to the expression (field ids;
    ToJson prints an empty sequence as [] and a one-element sequence as a list)"""
    ids = k.get("ids")
    return list(ids) if ids else expand_ids(k["id"])


def walk(e):
    yield e
    for k in ("arg", "l", "r"):
        if isinstance(e.get(k), dict):
            yield from walk(e[k])


def range_predicate(c, open_ids):
    """predicates of the two range-evaluation findings (their wrong answers depend on how the samples are cut into
    records, so no deviation model predicts them): F-C18-5 = the expression contains a binary operator with a vector
    operand; F-C18-6 = an aggregation over a selector whose offset is larger than the step"""
    nodes = list(walk(c["e"]))
    if F_BINOP in open_ids and any(n["k"] == "bin" and not is_scalar(n) for n in nodes):
        return F_BINOP
    if F_AGGOFF in open_ids:
        for n in nodes:
            if n["k"] == "agg" and any(offset_of(x) > c["step"] for x in walk(n["arg"])):
                return F_AGGOFF
    return ""


def is_scalar(e):
    return e["k"] == "num" or (e["k"] == "bin" and is_scalar(e["l"]) and is_scalar(e["r"]))


def offset_of(e):
    if e["k"] == "sel":
        return e["off"]
    if e["k"] == "rfn":
        return e["arg"]["off"]
    return 0


# ---------------------------------------------------------------------------------------------------

NO_AUTO_FLUSH = {"write-cold-duration": '"1h"', "force-snapShot-duration": '"1h"'}


def server_confs(tier, seed):
    """name -> (extra_conf, flush before the queries)"""
    if tier == "quick":
        return {"A": ({"data.memtable": NO_AUTO_FLUSH}, seed % 2 == 0)}
    return {"A": ({"data.memtable": NO_AUTO_FLUSH}, False),
            "B": ({"common": {"cpu-num": 2}, "data.memtable": NO_AUTO_FLUSH}, True)}


def nontrivial(c):
    return bool(c["exp"])


def nan_coverage(sets):
    """how far ordinary NaN samples were exercised: counted on the cases of this run"""
    def has_nan_answer(c):
        if c["a"] == "instant":
            return any(x["d"] == 0 and x["n"] == 0 for x in c["exp"])
        return any(p[1] == 0 and p[2] == 0 for x in c["exp"] for p in x["pts"])
    with_nan = [s for s in sets if any(p[1] == NAN for x in s["data"]["series"] for p in x["pts"])]
    fns = {}
    for s in with_nan:
        for c in s["cases"]:
            if has_nan_answer(c):
                for n in walk(c["e"]):
                    key = n.get("fn") or (n["k"] + ":" + n["op"] if n["k"] in ("agg", "bin") else n["k"])
                    fns[key] = fns.get(key, 0) + 1
    return {"sample_sets_with_nan_samples": len(with_nan),
            "cases_over_sample_sets_with_nan": sum(len(s["cases"]) for s in with_nan),
            "cases_with_nan_in_expected_answer": sum(1 for s in with_nan for c in s["cases"] if has_nan_answer(c)),
            "cases_with_prediction_of_F-C18-10_or_11": sum(1 for s in sets for c in s["cases"] if any(
                i in ("F-C18-10", "F-C18-11") for k in c.get("known", []) for i in known_ids(k))),
            "operators_in_cases_with_nan_answer": dict(sorted(fns.items()))}


def report(run, sets, stats, nvalidated, tier, seed, t0):
    bad = [r for r in run.results if not r["known"]]
    known = [r for r in run.results if r["known"]]
    seen_ids = {}
    for r in known:
        for fid in expand_ids(r["known"]):
            seen_ids.setdefault(fid, []).append(r)
    for fid in sorted(seen_ids):
        rs = seen_ids[fid]
        pairs = {(r["set"], r["case"]) for r in rs}
        what = run.open[fid].get("what", "")[:160]
        print(f"KNOWN-FINDING: property={PROP} {fid} {what} -- re-observed for {len(pairs)} cases, e.g. [{rs[0]['query']}] "
              f"{rs[0]['params']}: {rs[0]['detail'][:240]}")
    seen, nviol = set(), 0
    for r in bad:
        k = (r["set"], r["case"])
        if k in seen:
            continue
        seen.add(k)
        if nviol < 10:
            s = sets[r["set"]]
            path = vlib.save_replay(PROP, {"data": s["data"], "case": s["cases"][r["case"]], "idx": r["set"], "seed": seed,
                                          "src": s["src"], "result": r})
            print(f"VIOLATION property={PROP} replay={path}")
            vlib.log(f"  [{r['phase']}] {r['query']} {r['params']}\n    {r['detail'][:700]}")
        nviol += 1
    ncases = sum(len(s["cases"]) for s in sets)
    samples = []
    for s in sets[:1] + sets[-1:]:
        c = s["cases"][0]
        samples.append({k: c[k] for k in ("a", "e", "t", "start", "end", "step") if k in c})
    cov = {
        "states": stats["exh"]["distinct"] + stats.get("exh2", {}).get("distinct", 0),
        "transitions": stats["exh"]["generated"] + stats.get("exh2", {}).get("generated", 0),
        "traces_validated_against_impl": ncases,
        "samples": samples,
        "exhaustive": True,
        "evaluations": run.nq,
        "distinct_nontrivial": sum(1 for s in sets for c in s["cases"] if nontrivial(c)),
        "rule": "cases = (sample set, expression, instant time | start/end/step) evaluated by TLC in exact arithmetic (seeded "
                "simulation of the grammar + BFS family over a fixed sample set + NaN family over a sample set with ordinary NaN samples + "
                "sentinel); distinct_nontrivial = cases with a "
                "non-empty expected answer; evaluations = real HTTP queries (cases x layouts x servers + the per-step instant "
                "queries of the RangeEqInstants triage); every case is first evaluated by the upstream promql engine "
                "(spec validation)",
        "tlc": stats,
        "spec_validated_against_upstream": nvalidated,
        "instant_cases": sum(1 for s in sets for c in s["cases"] if c["a"] == "instant"),
        "range_cases": sum(1 for s in sets for c in s["cases"] if c["a"] == "range"),
        "queries_by_phase": run.by_phase,
        "divergent_cases": nviol,
        "nan": nan_coverage(sets),
        "known_finding_cases": {fid: len({(r["set"], r["case"]) for r in rs}) for fid, rs in seen_ids.items()},
    }
    vlib.write_evidence(PROP, tier, seed, "model_checking", cov, time.time() - t0, nviol, [
        "TLC bounds as in the cfg files named under coverage.tlc; sample values are small integers or the ordinary NaN "
        "(value.NormalNaN 0x7FF8000000000001, distinct from the staleness marker), times whole seconds",
        "single-node ts-server over HTTP, one database; remote write through /api/v1/write; look-back delta passed per query",
        "the upstream engine (prometheus v0.50.1, the version of /repo/go.mod) over an in-memory storage is the reference of the specification",
        "new series are waited for once (count_over_time over the whole sample set) before judging, as the property allows",
        "cases that the engines refuse (many-to-one matches, duplicate label sets), infinities flowing into operators, the knife edge "
        "of the extrapolation threshold and the runaway predicate of F-C18-7 (except its sentinel) are not generated",
        "values compared with relative tolerance 1e-9 (absolute below 1)",
    ])
    return nviol


def run(tier, seed):
    t0 = time.time()
    vh = vlib.build_vh()
    vserver.build_server()
    sets, stats = gen_cases(tier, seed)
    vlib.log(f"[c18] {stats['data_sets']} sample sets, {stats['cases']} cases; TLC {time.time() - t0:.1f}s")
    r = Run(tier, seed, sets)
    n = validate_spec(vh, sets, r.concs)
    vlib.log(f"[c18] specification agrees with the upstream engine on {n} cases; {time.time() - t0:.1f}s")
    r.run(server_confs(tier, seed))
    vlib.log(f"[c18] {r.nq} queries; {len(r.results)} divergent answers; wall {time.time() - t0:.1f}s")
    nviol = report(r, sets, stats, n, tier, seed, t0)
    if tier != "quick":
        missing = [f for f in r.open if not any(f in expand_ids(x["known"]) for x in r.results if x["known"])]
        if missing and not nviol:
            raise vlib.Infra(f"open findings not re-observed in the thorough tier (the list must not rot): {missing}")
    return 1 if nviol else 0


def replay(path, seed):
    obj = json.load(open(path))
    seed = obj.get("seed", seed)
    sets = [{"data": obj["data"], "cases": [obj["case"]], "src": obj.get("src", "replay")}]
    vh = vlib.build_vh()
    r = Run("thorough", seed, sets)
    r.concs = [Conc(obj.get("idx", 0), obj["data"], seed)]
    validate_spec(vh, sets, r.concs)
    r.run({"A": ({"data.memtable": NO_AUTO_FLUSH}, False)})
    for x in r.results[:6]:
        vlib.log(f"  [{x['phase']}] {x['query']} {x['params']}\n    {x['detail'][:700]} {x['known']}")
    if any(not x["known"] for x in r.results):
        print(f"VIOLATION property={PROP} replay={path}")
        return 1
    print("replay passes" + (" (known finding re-observed)" if r.results else ""))
    return 0


def selftest(seed):
    """every deviation name of the specification must make TLC find a counterexample"""
    try:
        devs = check_devs(4)
    except vlib.Infra as ex:
        print("NOT CAUGHT:", ex)
        return 1
    for d, st in devs.items():
        print(f"Dev={{{d}}}: counterexample to {st['invariant']} ({st['states']} states, {st['wall_s']}s)")
    return 0
