"""C14, black-box layer: quiescent behaviours of specs/Retention.tla (BBSpec: the environment acts only when the
retention service has nothing left to do) replayed over HTTP against a single-node ts-server (tools/vserver.py)
whose retention service checks every second. After every environment action the observable state must reach the
specification's state at the next quiescent point and stay there: policy duration (SHOW RETENTION POLICIES), live
shard groups (SHOW SHARDS), shard directories on disk, what a query over every slot returns; writes are
acknowledged or refused (point time is expired) as the specification says."""
import concurrent.futures as cf
import glob, json, os, random, re, time
import vlib, vserver

PROP = "C14"
GO_ZERO = 62135596800 * 10**9        # ns between Go's zero time (the origin of Time.Truncate) and the Unix epoch
DB, RP, MST = "db0", "rp0", "m"
SETTLE = 45.0                        # s to reach the expected state (check interval 1 s, series index lag ~1-2 s)
HOLD = 2.6                           # s the expected state must then persist (at least two more service iterations)


class Div(Exception):
    pass


import threading
_start_lock = threading.Lock()


def start_server():
    """one server at a time (vserver draws its port block from the process id and the clock), with retries: another
    agent's server may grab a port between the probe and the bind"""
    last = None
    for attempt in range(4):
        with _start_lock:
            try:
                return vserver.Server(extra_conf={"retention": {"check-interval": '"1s"'}}, name="c14bb")
            except vlib.Infra as ex:
                last = ex
                time.sleep(0.5 + attempt)
    raise last


def parse_go_duration(s):
    if s in ("0s", "0"):
        return 0
    tot = 0
    for num, unit in re.findall(r"([0-9.]+)(ns|us|µs|ms|s|m|h)", s):
        tot += float(num) * {"ns": 1, "us": 10**3, "µs": 10**3, "ms": 10**6, "s": 10**9, "m": 60 * 10**9, "h": 3600 * 10**9}[unit]
    return int(round(tot))


class Conc:
    """ticks of the specification (half shard-group durations) on the wall clock: the shard-group duration is chosen
    such that now lies in the middle half of the tick interval (n0-1, n0)"""

    def __init__(self, rnd, n0):
        now = time.time_ns()
        for _ in range(200000):
            sgd = 3600 * 10**9 + rnd.randrange(0, 2 * 3600 * 10**9)
            sgd -= sgd % 2
            delta = sgd // 2
            pos = (now + GO_ZERO) % sgd
            sub, phase = pos // delta, pos % delta
            if sub != (n0 - 1) % 2 or not (delta // 4 <= phase <= 3 * delta // 4):
                continue
            self.sgd, self.delta, self.n0 = sgd, delta, n0
            self.base = now - pos - ((n0 - 1) // 2) * sgd
            self.boundary = self.base + n0 * delta
            room = min(phase - 10 * 10**9, 20 * 60 * 10**9)
            self.jd = {d: rnd.randrange(0, room // 2) for d in range(2, 13)}
            self.jp = rnd.randrange(0, room // 2 - 10**6)
            return
        raise vlib.Infra("no shard-group duration places the clock")

    def index_duration(self):
        for m in range(64, 4096):
            ig = m * self.sgd
            s0 = self.base - 2 * self.sgd
            s0 -= (s0 + GO_ZERO) % ig
            if s0 + ig >= self.base + 10 * self.sgd:
                return ig
        return 4096 * self.sgd

    def tick(self, t):
        return self.base + t * self.delta

    def dur(self, d):
        return 0 if d == 0 else d * self.delta + self.jd.get(d, 0)

    def inv(self, ns):
        if ns == 0:
            return 0
        for d in range(1, 13):
            if self.dur(d) == ns:
                return d
        return -99

    def ptime(self, t, pid):
        return self.tick(t) + self.jp + pid * 10**6

    def slot_of(self, start_ns):
        off = start_ns - self.base
        if off % self.sgd:
            return None
        return off // self.sgd + 1


def collapse(hist):
    """environment actions with the observation at the next quiescent state"""
    out = []
    for s in hist:
        if s["a"].startswith("Loop"):
            if not out:
                raise vlib.Infra("behaviour starts with a service step")
            out[-1]["exp"] = s["exp"]
            out[-1]["loop"] += 1
        else:
            out.append({"a": s["a"], "args": s["args"], "res": s["res"], "exp": s["exp"], "loop": 0})
    return out


def expected_view(exp, nslots):
    live = sorted(g["slot"] for g in exp["groups"] if not g["marked"] and not g["pruned"])
    stored = sorted(exp["groups"][i]["slot"] for i, sh in enumerate(exp["shards"]) if sh["eng"] in ("open", "lazy", "orphan"))
    return {"pol": exp["pol"], "live": live, "stored": stored, "q": [sorted(x) for x in exp["q"]][:nslots]}


def observe(srv, conc, nslots):
    st, r = srv.query(f"show retention policies on {DB}")
    pol = None
    for s in srv.series_of(r):
        for v in s.get("values") or []:
            if v[0] == RP:
                pol = conc.inv(parse_go_duration(v[1]))
                if parse_go_duration(v[2]) != conc.sgd:
                    raise Div(f"shard group duration of {RP} is {v[2]}")
    st, r = srv.query("show shards")
    live = []
    for s in srv.series_of(r):
        if s.get("name") != DB:
            continue
        cols = s["columns"]
        gi, ri = cols.index("shard_group"), cols.index("retention_policy")
        seen = set()
        for v in s.get("values") or []:
            if v[ri] != RP or v[gi] in seen:
                continue
            seen.add(v[gi])
            live.append(v[gi])
    # group id -> slot through the directories / the start time is only printed to the second: use SHOW SHARD GROUPS ids
    # and the directory names (exact nanoseconds) instead
    stored, dir_slot = [], {}
    for p in glob.glob(os.path.join(srv.dir, "data", "data", DB, "*", RP, "*_*_*_*")):
        m = re.match(r"(\d+)_(-?\d+)_(-?\d+)_(\d+)$", os.path.basename(p))
        if not m:
            continue
        sl = conc.slot_of(int(m.group(2)))
        if sl is None or int(m.group(3)) - int(m.group(2)) != conc.sgd:
            raise Div(f"shard directory {os.path.basename(p)} is not a slot of this case")
        stored.append(sl)
        dir_slot[int(m.group(1))] = sl
    q = []
    for sl in range(1, nslots + 1):
        a, b = conc.tick((sl - 1) * 2), conc.tick(sl * 2)
        st, r = srv.query(f"select v from {MST} where time >= {a} and time < {b}", db=DB, epoch="ns")
        ids = []
        err = (r.get("results") or [{}])[0].get("error") or r.get("error")
        if err and "measurement not found" not in err and "measurement is being delete" not in err:
            # (when retention removes the last shard group of a measurement the catalogue marks the measurement
            # itself for deletion - SchemaClean -: until it is dropped a query is answered with that error, which
            # is an empty result as far as this property goes) anything else must go away while the state settles
            q.append(["error: " + err])
            continue
        for s in srv.series_of(r):
            vi = s["columns"].index("v")
            ids += [int(v[vi]) for v in (s.get("values") or [])]
        q.append(sorted(ids))
    return {"pol": pol, "live_groups": len(live), "stored": sorted(stored), "q": q}


def matches(want, got):
    if want["pol"] != got["pol"]:
        return f"policy duration: specification {want['pol']} ticks, SHOW RETENTION POLICIES {got['pol']} ticks"
    if len(want["live"]) != got["live_groups"]:
        return f"catalogue: specification has live shard groups for slots {want['live']}, SHOW SHARDS lists {got['live_groups']} groups"
    if want["stored"] != got["stored"]:
        return f"storage: specification has shard storage for slots {want['stored']}, the data directory has {got['stored']}"
    if want["q"] != got["q"]:
        return f"queries: specification expects {want['q']} per slot, the server returns {got['q']}"
    return ""


def run_case(case, seed):
    """returns (divergence text or "", steps)"""
    hist = case["hist"]
    steps = collapse(hist)
    n0 = hist[0]["exp"]["now"]
    pol0 = hist[0]["args"]["prev"] if hist[0]["a"] == "AlterDuration" else hist[0]["exp"]["pol"]
    nslots = len(hist[0]["exp"]["q"])
    rnd = random.Random(seed * 7919 + case["id"])
    conc = Conc(rnd, n0)
    srv = start_server()
    done = 0
    try:
        st, r = srv.query(f"create database {DB}", method="POST")
        st, r = srv.query(f"create retention policy {RP} on {DB} duration {conc.dur(pol0)}ns replication 1 shard duration {conc.sgd}ns index duration {conc.index_duration()}ns default", method="POST")
        if st != 200 or r["results"][0].get("error"):
            raise vlib.Infra(f"create retention policy failed: {r}")
        for i, s in enumerate(steps):
            if time.time_ns() > conc.boundary - 90 * 10**9:
                raise vlib.Infra("wall clock too close to the tick boundary")
            a, args = s["a"], s["args"]
            what = f"step {i} {a}{args}"
            if a == "AlterDuration":
                st, r = srv.query(f"alter retention policy {RP} on {DB} duration {conc.dur(args['d'])}ns", method="POST")
                err = (r.get("results") or [{}])[0].get("error") or r.get("error")
                if s["res"]["r"] == "ok" and err:
                    raise Div(f"{what}: ALTER .. DURATION {conc.dur(args['d'])}ns refused: {err}")
                if s["res"]["r"] == "rejected" and not err:
                    raise Div(f"{what}: ALTER .. DURATION {conc.dur(args['d'])}ns (below the shard duration {conc.sgd}ns) accepted")
            elif a == "Write":
                ts = conc.ptime((args["sl"] - 1) * 2 + args["sub"], args["id"])
                line = f"{MST},host=h{args['k']} v={args['id']}i {ts}"
                for attempt in range(6):
                    st, body = srv.write(DB, line)
                    if st == 500 and ("shard group not found" in body or "shard meta not found" in body or "timeout" in body):
                        time.sleep(0.5)      # catalogue cache lag on the very first point of a new group (BUILDING.md)
                        continue
                    break
                if s["res"]["r"] == "accepted" and st != 204:
                    raise Div(f"{what}: a point at {ts} inside the retention window was refused: {st} {body[:300]}")
                if s["res"]["r"] == "rejected" and (st == 204 or "point time is expired" not in body):
                    raise Div(f"{what}: a point at {ts} older than now - duration was answered {st} {body[:300]}")
            elif a == "Restart":
                try:
                    srv.restart(kill=(rnd.random() < 0.5))
                except vlib.Infra:
                    # the port block may still be held (or was taken by a neighbour for a moment): try again
                    for attempt in range(6):
                        srv.kill()
                        time.sleep(2 + attempt)
                        try:
                            srv.start()
                            break
                        except vlib.Infra:
                            if attempt == 5:
                                raise
            else:
                raise vlib.Infra("unexpected action in a black-box behaviour: " + a)
            want = expected_view(s["exp"], nslots)
            t0, msg = time.time(), "?"
            while time.time() - t0 < SETTLE:
                got = observe(srv, conc, nslots)
                msg = matches(want, got)
                if not msg:
                    break
                time.sleep(0.4)
            if msg:
                raise Div(f"{what}: not reached within {SETTLE} s: {msg}")
            time.sleep(HOLD)
            msg = matches(want, observe(srv, conc, nslots))
            if msg:
                raise Div(f"{what}: state did not persist: {msg}")
            done += 1
        return "", done
    except Div as d:
        return f"{d}  [sgd={conc.sgd}ns base={conc.base} n0={n0}]", done
    except (OSError, TimeoutError) as ex:     # socket timeouts, refused connections: the server or the machine, not the property
        raise vlib.Infra(f"HTTP layer: {type(ex).__name__}: {ex}\n" + srv.tail_log(1500))
    finally:
        srv.stop()


def gen(tier, seed):
    n = 6 if tier == "quick" else 24
    import c14, shutil
    tmp = vlib.scratch("c14bbcfg")
    try:
        r = vlib.run_tlc("RetentionMC", c14.with_asimpl(tmp, "Retention.bb.cfg"), simulate=60 if tier == "quick" else 300, depth=62, seed=seed, timeout=900)
    finally:
        shutil.rmtree(tmp, ignore_errors=True)
    if r.get("timeout") or r["violated"] or r["error"]:
        raise vlib.Infra(f"TLC failed on Retention.bb.cfg: {r['violated']} {r['error']}\n" + r["out"][-2000:])
    tr = r["traces"]
    rnd = random.Random(seed)
    rnd.shuffle(tr)
    # prefer behaviours in which the service deletes something, then those with refused writes / refused ALTER
    def score(h):
        return (sum(1 for s in h if s["a"] == "LoopDeleteShard") > 0) * 4 + any(s["res"]["r"] == "rejected" for s in h) * 2 + any(s["a"] == "Restart" for s in h)
    tr.sort(key=score, reverse=True)
    sel, seen = [], set()
    for h in tr:
        key = json.dumps([(s["a"], s["args"]) for s in h if not s["a"].startswith("Loop")][:6], sort_keys=True)
        if key in seen:
            continue
        seen.add(key)
        sel.append(h)
        if len(sel) >= n:
            break
    return [{"id": i, "hist": h} for i, h in enumerate(sel)], {"generated": r["generated"], "traces": len(tr), "replayed": len(sel)}


def run(tier, seed, limit=None):
    t0 = time.time()
    cases, st = gen(tier, seed)
    if limit:
        cases = cases[:limit]
    if tier == "quick":
        cases = cases[:3]
    out = {"behaviours": 0, "steps": 0, "servers": len(cases), "wall_s": 0, "skipped": "", "known": {}, "violations": [], "tlc": st}
    vserver.build_server()

    def one(c):
        try:
            return run_case(c, seed)
        except vlib.Infra as ex:      # this server could not be (re)started or answered no more: the behaviour is not judged
            return ex, 0

    notjudged = []
    with cf.ThreadPoolExecutor(3 if tier == "quick" else 6) as ex:
        for case, (msg, steps) in zip(cases, ex.map(one, cases)):
            if isinstance(msg, Exception):
                notjudged.append(str(msg)[:400])
                continue
            out["behaviours"] += 1
            out["steps"] += steps
            if msg:
                out["violations"].append({"case": dict(case, seed=seed), "detail": msg})
    out["wall_s"] = round(time.time() - t0, 1)
    if notjudged:
        out["skipped"] = f"{len(notjudged)} behaviours not judged (server infrastructure), e.g. {notjudged[0][:200]}"
        if not out["violations"] and out["behaviours"] < max(1, (len(cases) + 1) // 2):
            raise vlib.Infra(f"black-box layer: {len(notjudged)} of {len(cases)} servers failed: {notjudged[0]}")
    return out


def replay(case, seed):
    msg, _ = run_case(case, case.get("seed", seed))
    return msg
