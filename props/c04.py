"""C04 — concurrent writes, flushes, compactions and queries show no torn data.
Mode A: TLC checks specs/View.tla (which layers a query captures under which lock, the `flushed` flag,
reference counts before physical removal) exhaustively and confirms the mutation seeds are caught.
Mode C: a randomised concurrent driver (writers, readers, flusher, compaction/merge triggers, final or
mid-run close) runs against a real shard and records the client-visible history; TLC validates every
history against TraceView.tla (internal Apply steps are left to TLC). Deadlocks (watchdog), crashes of
the process and duplicate (series,time) rows are reported directly."""
import json, os, shutil, time
import vlib

PROP = "C04"
DEVS = {'{"view_ignores_flushed_flag"}': "ViewCompleteAction", '{"publish_before_flag"}': "NoDupLayers",
        '{"remove_ignores_refs"}': "NoRemoveWhileRef"}
KNOWN_ERR = "slice bounds out of range [4294967288:0]"


def mode_a():
    r = vlib.run_tlc("View", "View.exh.cfg", timeout=1800)
    vlib.tlc_must_pass(r, "View.exh.cfg")
    stats = {"cfg": "View.exh.cfg", "generated": r["generated"], "distinct": r["distinct"], "depth": r["depth"]}
    base = open(os.path.join(vlib.SPECS, "cfg", "View.exh.cfg")).read()
    tmp = vlib.scratch("c04cfg")
    caught = {}
    try:
        for dev, inv in DEVS.items():
            p = os.path.join(tmp, "dev.cfg")
            open(p, "w").write(base.replace("Dev = {}", "Dev = " + dev))
            rr = vlib.run_tlc("View", p, timeout=600)
            if rr["violated"] != inv:
                raise vlib.Infra(f"deviation {dev} should violate {inv} in View.tla, TLC says {rr['violated']} / {rr['error']}")
            caught[dev] = inv
    finally:
        shutil.rmtree(tmp, ignore_errors=True)
    stats["deviations_caught"] = caught
    return stats


def gen_cases(tier, seed):
    import random
    rnd = random.Random(seed)
    n = 480 if tier == "quick" else 6000
    cases = []
    for i in range(n):
        cases.append({"id": i, "seed": seed, "writers": rnd.choice([1, 2, 3]), "readers": rnd.choice([1, 2, 3]),
                      "ops": rnd.choice([6, 10, 16]), "flushes": rnd.choice([1, 2, 4]), "compacts": rnd.choice([0, 1, 3]),
                      "close_mid": rnd.random() < 0.25, "settle": False, "reopen_first": rnd.random() < 0.5})
    return cases


def trace_of(r):
    lines = [{"ev": "Reset", "cells": r["cells"], "clients": r["clients"]}]
    lines += [{k: v for k, v in e.items() if k not in ("seq", "err", "kind", "closed")} for e in r["events"]]
    return lines


def strip_known_errors(r):
    """queries that failed with the F-C04-1 error signature while the shard was open are dropped from the trace"""
    bad_q = {e["q"] for e in r["events"] if e["ev"] == "QErr" and not e.get("closed") and KNOWN_ERR in e.get("err", "")}
    if not bad_q:
        return 0
    r["events"] = [e for e in r["events"] if e.get("q") not in bad_q]
    return len(bad_q)


def validate(runs):
    tmp = vlib.scratch("c04trace")
    try:
        tp = os.path.join(tmp, "trace.ndjson")
        with open(tp, "w") as f:
            for lines in runs:
                for x in lines:
                    f.write(json.dumps(x) + "\n")
        r = vlib.run_tlc("TraceView", "TraceView.cfg", workers=1, timeout=2400, copy_files=[tp], depth_first=True)
        if r.get("timeout") or r["error"]:
            raise vlib.Infra(f"trace validation did not run: {r['error']}\n" + r["out"][-2000:])
        return r["violated"] is None, r
    finally:
        shutil.rmtree(tmp, ignore_errors=True)


def f_c04_1_symptom(err):
    """symptoms of known finding F-C04-1 in the stderr of a harness process that died"""
    if "WATCHDOG" in err and "tsspFile).Close" in err and "WaitGroup).Wait" in err:
        return "Engine.Close hangs in tsspFile.Close (file reference never released)"
    if "negative WaitGroup counter" in err and "tsspFile).Unref" in err:
        return "panic: negative WaitGroup counter in tsspFile.Unref (file reference released twice)"
    return None


def run_cases(cases, cmd="record-view", watchdog=90):
    vh = vlib.build_vh()
    results, errs = vlib.run_vh_parallel(vh, [cmd], cases, nproc=8, env={"VH_WATCHDOG": str(watchdog)})
    died = []
    for rc, err in errs:
        sym = f_c04_1_symptom(err)
        if sym:
            died.append({"id": -1, "ok": False, "symptom": sym, "detail": sym + "\n" + err[-1500:]})
        elif "WATCHDOG" in err:
            died.append({"id": -1, "ok": False, "hang": True, "detail": "deadlock: operations/close did not finish\n" + err[-6000:]})
        elif "panic:" in err or "fatal error:" in err:
            died.append({"id": -1, "ok": False, "crash": True, "detail": "store process crashed:\n" + err[-6000:]})
        else:
            raise vlib.Infra(f"harness process failed: rc={rc} {err[-3000:]}")
    results = [r for r in results if not r.get("hang")]
    return results, died


def run(tier, seed):
    t0 = time.time()
    a = mode_a()
    cases = gen_cases(tier, seed)
    # runs that start on a fresh shard cannot hit the Sequencer-reload window of F-C04-1; runs that start on a
    # re-opened shard can. They are executed separately so that a process death can be attributed.
    fresh = [c for c in cases if not c["reopen_first"]]
    reopened = [c for c in cases if c["reopen_first"]]
    res_f, died_f = run_cases(fresh)
    res_r, died_r = run_cases(reopened, watchdog=30)
    results = res_f + res_r
    infra = [r for r in results if r.get("infra")]
    if infra:
        raise vlib.Infra(f"harness infra error: {infra[0]}")
    open_ids = {f["id"] for f in vlib.load_known(PROP)}
    bad = list(died_f)
    known_n = 0
    known_ex = ""
    for d in died_r:
        if d.get("symptom") and "F-C04-1" in open_ids:
            known_n += 1
            known_ex = known_ex or d["symptom"]
        else:
            bad.append(d)
    good = []
    for r in results:
        if r.get("hang"):
            bad.append(r)
            continue
        k = strip_known_errors(r)
        if not r["ok"]:
            d = r.get("detail", "")
            if "twice" in d and "overlap in time: true" in d and "F-C04-1" in open_ids:
                known_n += 1
                known_ex = known_ex or d
                continue   # history cannot be represented (duplicate cell); attributed, not validated
            bad.append(r)
            continue
        if k:
            if "F-C04-1" in open_ids:
                known_n += k
                known_ex = known_ex or f"{k} queries failed with the recovered panic '{KNOWN_ERR}' while the shard was open"
            else:
                r["ok"] = False
                r["detail"] = f"query failed with '{KNOWN_ERR}' while the shard was open"
                bad.append(r)
                continue
        good.append(r)
    # directed reproduction of F-C04-1: the recorded history, without waiting for the Sequencer reload
    dstat = {"runs": 0, "observed": 0}
    hp = os.path.join(vlib.ROOT, "selftest", "histories", "F-C04-1.json")
    if "F-C04-1" in open_ids and os.path.exists(hp):
        base = json.load(open(hp))
        n = 320 if tier == "quick" else 3000
        dcases = [dict(base, id=100000 + i) for i in range(n)]
        dres, ddied = run_cases(dcases, cmd="replay-layout", watchdog=25)
        dstat["runs"] = len(dres)
        for d in ddied:
            if d.get("symptom"):
                dstat["observed"] += 1
                known_n += 1
                known_ex = known_ex or d["symptom"]
            else:
                bad.append(d)
        for r in dres:
            if r.get("known") == "F-C04-1" or r.get("known_read_errors"):
                dstat["observed"] += 1
                known_n += 1
                known_ex = known_ex or r.get("detail", "")[:400]
            elif not r["ok"]:
                r["detail"] = "directed F-C04-1 history diverged in another way: " + r.get("detail", "")
                bad.append(r)
    if known_n:
        print(f"KNOWN-FINDING: property={PROP} F-C04-1 observed {known_n} times, e.g. {known_ex[:300]}")
    tstats = {"histories": len(good), "events": sum(len(r["events"]) for r in good)}
    if good:
        ok, t = validate([trace_of(r) for r in good])
        tstats["tlc_states"] = t["distinct"]
        tstats["tlc_generated"] = t["generated"]
        if not ok:
            for r in good:
                ok1, t1 = validate([trace_of(r)])
                if not ok1:
                    r2 = {k: v for k, v in r.items() if k != "events"}
                    r2["ok"] = False
                    r2["detail"] = ("client-visible history is not explained by TraceView.tla (a query returned a value its cell did not "
                                    f"hold during the query, missed an acknowledged write, or went back in time); matched {t1['distinct']} states")
                    r2["events"] = r["events"]
                    bad.append(r2)
    byid = {c["id"]: c for c in cases}
    for r in bad[:5]:
        path = vlib.save_replay(PROP, {"case": byid.get(r.get("id"), {}), "result": r})
        print(f"VIOLATION property={PROP} replay={path}")
        vlib.log(str(r.get("detail", ""))[:2000])
    sample = trace_of(good[0])[:40] if good else []
    cov = {
        "states": a["distinct"] + tstats.get("tlc_states", 0), "transitions": a["generated"] + tstats.get("tlc_generated", 0),
        "traces_validated_against_impl": len(good),
        "samples": [sample],
        "evaluations": len(results), "distinct_nontrivial": len(good),
        "rule": "one evaluation = one concurrent run (1-3 writers x 1-3 readers x flusher x compaction/merge triggers, optional close in "
                "the middle); non-trivial = histories with at least one completed query that TLC validated",
        "queries": sum(r.get("queries", 0) for r in results), "writes": sum(r.get("writes", 0) for r in results),
        "close_mid_runs": sum(1 for c in cases if c["close_mid"]),
        "known_finding_observations": known_n, "directed_F_C04_1": dstat,
        "trace_validation": tstats, "tlc": {"design": a},
        "exhaustive": False,
    }
    vlib.write_evidence(PROP, tier, seed, "model_checking", cov, time.time() - t0, len(bad), [
        "schedules are sampled on the code side (randomised goroutine jitter), enumerated only on the specification side",
        "every cell has a single writer client, so the order of writes to a cell is the writer's program order",
        "series are created and made searchable before the concurrent phase (the statement allows the index lag)",
    ])
    return 1 if bad else 0


def replay(path, seed):
    obj = json.load(open(path))
    r = obj["result"]
    if r.get("events"):
        ok, t = validate([trace_of(r)])
        if not ok:
            print(f"VIOLATION property={PROP} replay={path}")
            return 1
        print("recorded history is accepted")
        return 0
    print(f"VIOLATION property={PROP} replay={path}")
    vlib.log(str(r.get("detail")))
    return 1
