"""C17 — the replication log store (lib/raftlog RaftDiskStorage) honours the Raft storage contract, across reopen.
Mode A: TLC exhaustively checks specs/RaftStorage.tla: an implementation-level model (files of FileCap slots,
slotGe search, truncation into earlier files, rotation, whole-file prefix deletion, reopen) against the
reference (etcd MemoryStorage semantics) for ReadsConsistent, Contiguous, TermMonotone, SnapshotSane.
Mode B: TLC-generated behaviours (one path per distinct small state + seeded simulation with three files) are
replayed into a real RaftDiskStorage on /dev/shm, one abstract entry = one block of concrete entries so that
FileCap = 3 slots = one real file of 30000 entries; after every action FirstIndex, LastIndex, Term, Entries
(boundary arguments, size limits, full scan), Snapshot and InitialState are compared with the specification's
expectation (etcd's MemoryStorage is fed the same operations as a cross-check of the specification)."""
import concurrent.futures as cf
import json, os, random, time
import vlib

PROP = "C17"
DEVIATIONS = ["slot_search_off_by_one", "trunc_keeps_conflict_slot", "trunc_keeps_later_files",
              "delete_before_drops_holder", "impl_term_classification", "impl_trunc_clobbers_payload"]


def gen_behaviours(tier, seed):
    stats = {}
    # several TLC JVMs run side by side: cap each heap (default would be a quarter of the RAM each)
    os.environ.setdefault("JAVA_TOOL_OPTIONS", "-Xmx4g")
    quick = tier == "quick"
    exh_cfg = "RaftStorage.exh.quick.cfg" if quick else "RaftStorage.exh.thorough.cfg"
    nsim_procs, nsim = (2, 20) if quick else (6, 120)
    with cf.ThreadPoolExecutor(2 + nsim_procs) as ex:
        f_exh = ex.submit(vlib.run_tlc, "RaftStorageMC", exh_cfg, workers=max(2, vlib.NCPU - 2 - nsim_procs),
                          timeout=600 if quick else 1700, coverage=False)
        f_bfs = ex.submit(vlib.run_tlc, "RaftStorageMC", "RaftStorage.bfs.export.cfg", workers=2, timeout=600)
        f_sims = [ex.submit(vlib.run_tlc, "RaftStorageMC", "RaftStorage.sim.cfg", simulate=nsim, depth=12,
                            seed=seed * 1000 + k, timeout=600 if quick else 1700) for k in range(nsim_procs)]
        r = f_exh.result()
        r2 = f_bfs.result()
        r3s = [f.result() for f in f_sims]
    vlib.tlc_must_pass(r, exh_cfg)
    stats["exh"] = {k: r[k] for k in ("generated", "distinct", "depth", "wall_s")}
    stats["exh"]["cfg"] = exh_cfg
    vlib.tlc_must_pass(r2, "RaftStorage.bfs.export.cfg")
    systematic = r2["traces"]
    stats["bfs_export"] = {"generated": r2["generated"], "distinct": r2["distinct"], "traces": len(systematic)}
    if quick:  # seeded sample of the systematic set (the thorough tier replays all of it)
        rnd = random.Random(seed)
        systematic = rnd.sample(systematic, min(len(systematic), 350))
        stats["bfs_export"]["sampled"] = len(systematic)
    behaviours = list(systematic)
    nsimtr = 0
    for r3 in r3s:
        vlib.tlc_must_pass(r3, "RaftStorage.sim.cfg")
        behaviours += r3["traces"]
        nsimtr += len(r3["traces"])
    stats["sim"] = {"generated": sum(x["generated"] for x in r3s), "traces": nsimtr, "num": nsim * nsim_procs}
    return behaviours, stats


def replay_cases(cases, seed):
    vh = vlib.build_vh()
    results, errs = vlib.run_vh_parallel(vh, ["replay-raftlog"], cases)
    if errs:
        raise vlib.Infra(f"harness process failed: {errs[0]}")
    if len(results) != len(cases):
        raise vlib.Infra(f"harness returned {len(results)} results for {len(cases)} cases")
    return results


def judge(results):
    """Split results into violations and known-finding observations (only OPEN listed findings count)."""
    infra = [r for r in results if r.get("infra")]
    if infra:
        raise vlib.Infra(f"harness infra error (specification vs MemoryStorage / harness): {infra[0]}")
    open_ids = {f["id"] for f in vlib.load_known(PROP)}
    bad = [r for r in results if not r["ok"]]
    known = {}
    for r in results:
        if not r.get("known"):
            continue
        for kid in r["known"].split(","):
            if kid in open_ids:
                known.setdefault(kid, []).append(r)
            elif r["ok"]:  # attributed to something that is not a listed open finding
                r["ok"] = False
                r["detail"] = f"divergence matches deviation model {kid}, which is not an open known finding: " + r.get("detail", "")
                bad.append(r)
    return bad, known


def run(tier, seed):
    t0 = time.time()
    behaviours, stats = gen_behaviours(tier, seed)
    cases = [{"id": i, "seed": seed, "hist": h} for i, h in enumerate(behaviours)]
    results = replay_cases(cases, seed)
    bad, known = judge(results)
    for kid in sorted(known):
        ex = next((r for r in known[kid] if r["ok"]), known[kid][0])
        d = next((p for p in ex.get("detail", "").split(" || ") if p.startswith(kid)), ex.get("detail", ""))
        print(f"KNOWN-FINDING: property={PROP} {kid} re-observed in {len(known[kid])} behaviours, e.g. {d[:400]}")
    byid = {c["id"]: c for c in cases}
    for r in bad[:5]:
        path = vlib.save_replay(PROP, {"case": byid[r["id"]], "result": r})
        print(f"VIOLATION property={PROP} replay={path}")
        vlib.log(r.get("detail", ""))
    distinct = len({json.dumps([[s["a"], s["args"]] for s in h], sort_keys=True) for h in behaviours})
    cov = {
        "states": stats["exh"]["distinct"], "transitions": stats["exh"]["generated"],
        "traces_validated_against_impl": len(results),
        "samples": [[[s["a"], s["args"]] for s in h] for h in ([behaviours[0], behaviours[-1]] if behaviours else [])],
        "exhaustive": True,
        "evaluations": len(results), "distinct_nontrivial": distinct,
        "rule": "behaviours of RaftStorage.tla (one path per distinct state of the small export config, seeded sample in the "
                "quick tier, + seeded simulation up to 10 abstract entries = 4 real files); distinct = distinct action sequences; "
                "after every action all read operators are compared for boundary arguments, size limits and a full scan",
        "tlc": stats,
        "reads_compared": sum(r["reads"] for r in results),
        "steps_replayed": sum(len(h) for h in behaviours),
        "layout_drift_steps": sum(r["drift"] for r in results),
        "behaviours_with_three_or_more_files": sum(1 for h in behaviours if max(len(s["exp"]["files"]) for s in h) >= 3),
        "behaviours_with_reopen": sum(1 for h in behaviours if any(s["a"] == "Reopen" for s in h)),
        "behaviours_truncating_into_earlier_file": sum(1 for h in behaviours if any(s["exp"]["clob"] for s in h)),
        "known_finding_behaviours": {k: len(v) for k, v in known.items()},
    }
    vlib.write_evidence(PROP, tier, seed, "model_checking", cov, time.time() - t0, len(bad), [
        "TLC bounds as in the cfg files named under coverage.tlc; FileCap = 3 abstract slots stand for maxNumEntries = 30000",
        "one abstract entry = a block of concrete entries with seeded block edges (10000/20000 +-1, 1/29999, 1/2, ...); payloads <= 48 bytes, "
        "so rotation by the 32 MiB size limit is not exercised",
        "store driven in process through the exported API (Init/Save/CreateSnapshot/DeleteBefore/Close), scratch directory on /dev/shm; "
        "entry-file-rw-type 2 (default) in ~80% and 1 in ~20% of the cases",
        "domain: saves continue, overlap or conflict above the snapshot index without gaps; CreateSnapshot only for stored indexes newer than "
        "the current snapshot; installing a snapshot beyond the end of the log (MemoryStorage.ApplySnapshot) and crash points are not explored",
        "clean close/reopen only (no crash injection)",
    ])
    return 1 if bad else 0


def replay(path, seed):
    obj = json.load(open(path))
    res = replay_cases([obj["case"]], seed)
    bad, known = judge(res)
    for kid in sorted(known):
        print(f"KNOWN-FINDING: property={PROP} {kid} re-observed: {known[kid][0].get('detail', '')[:400]}")
    if bad:
        print(f"VIOLATION property={PROP} replay={path}")
        vlib.log(bad[0].get("detail", ""))
        return 1
    print("replay passes")
    return 0


def selftest(seed):
    """Every deviation of the specification must give a TLC counterexample (the invariants are not vacuous)."""
    base = open(os.path.join(vlib.SPECS, "cfg", "RaftStorage.exh.quick.cfg")).read()
    os.makedirs(vlib.WORK, exist_ok=True)
    rc = 0
    for d in DEVIATIONS:
        p = os.path.join(vlib.WORK, f"c17-dev-{d}.cfg")
        open(p, "w").write(base.replace("Dev = {}", 'Dev = {"%s"}' % d))
        r = vlib.run_tlc("RaftStorageMC", p, timeout=600)
        print(f"deviation {d}: TLC reports {r['violated'] or 'NO VIOLATION'} ({r['distinct']} states, {r['wall_s']:.0f}s)")
        if not r["violated"]:
            rc = 2
        os.remove(p)
    return rc
