"""C17 — the replication log store (lib/raftlog RaftDiskStorage) honours the Raft storage contract, across reopen.
Mode A: TLC exhaustively checks specs/RaftStorage.tla: an implementation-level model (files of FileCap slots,
slotGe search, truncation into earlier files, rotation, whole-file prefix deletion, reopen) against the
reference (etcd MemoryStorage semantics) for ReadsConsistent, Contiguous, TermMonotone, SnapshotSane.
Mode B: TLC-generated behaviours (one path per distinct small state + seeded simulation with three files) are
replayed into a real RaftDiskStorage on /dev/shm, one abstract entry = one block of concrete entries so that
FileCap = 3 slots = one real file of 30000 entries; after every action FirstIndex, LastIndex, Term, Entries
(boundary arguments, size limits, full scan), Snapshot and InitialState are compared with the specification's
expectation (etcd's MemoryStorage is fed the same operations as a cross-check of the specification).
Size-rotation family (RaftStorage.size.*.cfg, MaxBig > 0): entries of payload class Big weigh one unit, a file
also rolls when it holds SizeCap units, so rotation happens in the middle of appending and conflicting batches
and files are shorter than FileCap; replayed with REAL payloads of 31 MiB/(SizeCap+1) + 256 KiB so that the real
store rolls by its 32 MiB limit exactly where the specification does; the real file layout (slot tables on
/dev/shm) is compared with the specification's and real rotations by size are counted: none observed = exit 2."""
import concurrent.futures as cf
import json, os, random, time
import vlib

PROP = "C17"
DEVIATIONS = ["slot_search_off_by_one", "trunc_keeps_conflict_slot", "trunc_keeps_later_files",
              "delete_before_drops_holder", "impl_term_classification", "impl_trunc_clobbers_payload"]
# deviations of the size-rotation family: they need Big payloads (checked against RaftStorage.size.exh.quick.cfg)
SIZE_DEVIATIONS = ["conflict_zero_only_uncovered_tail", "trunc_zero_only_uncovered_tail", "scan_stops_at_short_file",
                   "size_roll_drops_entry"]
# ... and of payloads larger than a file (class Huge; checked against RaftStorage.size.huge.cfg): the behaviour of the
# unchanged code (selftest/fixes/c17-oversize-entry-empty-file.diff)
HUGE_DEVIATIONS = ["oversize_rolls_empty_file"]


def size_classes(h):
    """Model-side classification of a behaviour: rotations by size (a file that is not the current one has fewer
    than FileCap slots), those caused by a conflicting Save, those in the middle of a batch, and those of a conflicting
    Save whose roll point lies inside the batch and not beyond the old end of the log (superseded entries lay behind
    the roll point: what a conflict handling that clears too little leaves behind)."""
    c = dict(size=0, conflict=0, mid=0, stale=0, huge_at_file_start=0)
    prev_last, prev_files, seen = 0, [], set()
    for st in h:
        fs, cap = st["exp"]["files"], st["exp"]["cap"]["slots"]
        a = st["args"]
        if st["a"] == "Save" and a["n"] > 0 and a["bm"] & 1 and a.get("bc") == 4 and len(prev_files) >= 2:
            # a Huge payload conflicts at the first slot of a file while rolled files exist (the file is emptied first)
            c["huge_at_file_start"] += any(f["fi"] == a["s0"] for f in prev_files[1:])
        for j in range(len(fs) - 1):
            key = (fs[j]["fi"], fs[j]["n"], fs[j + 1]["fi"])
            if fs[j]["n"] >= cap or key in seen:
                continue
            seen.add(key)
            c["size"] += 1
            if st["a"] == "Save" and st["args"]["n"] > 0:
                lo, nx = st["args"]["s0"], fs[j + 1]["fi"]
                if lo <= nx <= lo + st["args"]["n"] - 1:
                    c["mid"] += nx > lo
                    if lo <= prev_last:
                        c["conflict"] += 1
                        c["stale"] += lo < nx <= prev_last
        prev_last, prev_files = st["exp"]["last"], fs
    return c


def pick(traces, k, rnd):
    """seeded sample of k behaviours of the size family, the rarer classes first"""
    if len(traces) <= k:
        return list(traces)
    cls = [size_classes(h) for h in traces]
    order = list(range(len(traces)))
    rnd.shuffle(order)
    out, used = [], set()
    for key, share in (("huge_at_file_start", 0.3), ("stale", 0.45), ("conflict", 0.2), ("mid", 0.2)):
        for i in [i for i in order if i not in used and cls[i][key]][:int(k * share)]:
            used.add(i)
            out.append(traces[i])
    for i in order:
        if len(out) >= k:
            break
        if i not in used:
            used.add(i)
            out.append(traces[i])
    return out


def gen_behaviours(tier, seed):
    """Starts every TLC run; returns the behaviours of the slot-count family as soon as its export / simulation runs are
    finished, a function that waits for those of the size-rotation family (they are replayed second) and a function that
    waits for the exhaustive runs (Mode A) and completes the statistics: the exhaustive runs go on while the behaviours
    are replayed."""
    stats = {}
    # several TLC JVMs run side by side: cap each heap (default would be a quarter of the RAM each)
    os.environ.setdefault("JAVA_TOOL_OPTIONS", "-Xmx4g")
    quick = tier == "quick"
    exh_cfg = "RaftStorage.exh.quick.cfg" if quick else "RaftStorage.exh.thorough.cfg"
    nsim_procs, nsim = (2, 20) if quick else (6, 120)
    # size-rotation family: exhaustive cfgs, systematic exports (only behaviours with a rotation by size), simulation
    sz_exh = ["RaftStorage.size.exh.quick.cfg"] if quick else ["RaftStorage.size.exh.thorough.cfg", "RaftStorage.size.exh.thorough1.cfg"]
    # (cfg, number of behaviours replayed (0 = all), TLC workers)
    sz_bfs = [("RaftStorage.size.bfs.cap1.cfg", 50, 2), ("RaftStorage.size.bfs.cap2.cfg", 30, 2),
              ("RaftStorage.size.bfs.unit.cfg", 40, 3)] if quick else \
             [("RaftStorage.size.bfs.cap1.cfg", 0, 2), ("RaftStorage.size.bfs.cap2.cfg", 0, 2),
              ("RaftStorage.size.bfs.cap2t.cfg", 0, 2), ("RaftStorage.size.bfs.cap1t.cfg", 600, 3),
              ("RaftStorage.size.bfs.unit.cfg", 800, 2)]
    if os.environ.get("VERIF_C17_HUGE", "1") == "1":
        # payloads larger than the payload area of a file (class Huge): the code used to rotate an empty file into the
        # file list there (F-C17-3, repaired by 07237d0 in /repo)
        sz_bfs.append(("RaftStorage.size.huge.cfg", 60 if quick else 600, 2))
    sz_sim_procs, sz_nsim, sz_sim_keep = (2, 25, 30) if quick else (4, 100, 200)
    # the simulation and export runs are short-lived (one or two threads for a few minutes); the exhaustive runs get
    # half of the cores (slot-count family) and a quarter per size cfg, and go on while the behaviours are replayed
    w_exh = max(2, vlib.NCPU // 2)
    w_szexh = max(2, vlib.NCPU // (4 * len(sz_exh)))
    ex = cf.ThreadPoolExecutor(6 + len(sz_exh) + len(sz_bfs) + nsim_procs + sz_sim_procs)
    if True:
        f_exh = ex.submit(vlib.run_tlc, "RaftStorageMC", exh_cfg, workers=w_exh,
                          timeout=600 if quick else 1700, coverage=False)
        f_szexh = [ex.submit(vlib.run_tlc, "RaftStorageMC", c, workers=w_szexh, timeout=600 if quick else 1700) for c in sz_exh]
        f_bfs = ex.submit(vlib.run_tlc, "RaftStorageMC", "RaftStorage.bfs.export.cfg", workers=2, timeout=600)
        f_szbfs = [ex.submit(vlib.run_tlc, "RaftStorageMC", c, workers=w, timeout=900 if quick else 1700) for c, _, w in sz_bfs]
        f_sims = [ex.submit(vlib.run_tlc, "RaftStorageMC", "RaftStorage.sim.cfg", simulate=nsim, depth=12,
                            seed=seed * 1000 + k, timeout=600 if quick else 1700) for k in range(nsim_procs)]
        f_szsims = [ex.submit(vlib.run_tlc, "RaftStorageMC", "RaftStorage.size.sim.cfg", simulate=sz_nsim, depth=10,
                              seed=seed * 1000 + 500 + k, timeout=600 if quick else 1700) for k in range(sz_sim_procs)]
        r2 = f_bfs.result()
        r3s = [f.result() for f in f_sims]

    def mode_a():
        try:
            r = f_exh.result()
            rz_exh = [f.result() for f in f_szexh]
        finally:
            ex.shutdown(wait=True)
        vlib.tlc_must_pass(r, exh_cfg)
        stats["exh"] = {k: r[k] for k in ("generated", "distinct", "depth", "wall_s")}
        stats["exh"]["cfg"] = exh_cfg
        stats["size_exh"] = []
        for c, rz in zip(sz_exh, rz_exh):
            vlib.tlc_must_pass(rz, c)
            stats["size_exh"].append(dict({k: rz[k] for k in ("generated", "distinct", "depth", "wall_s")}, cfg=c))

    vlib.tlc_must_pass(r2, "RaftStorage.bfs.export.cfg")
    systematic = r2["traces"]
    stats["bfs_export"] = {"generated": r2["generated"], "distinct": r2["distinct"], "traces": len(systematic)}
    if quick:  # seeded sample of the systematic set (the thorough tier replays all of it)
        rnd = random.Random(seed)
        systematic = rnd.sample(systematic, min(len(systematic), 300))
        stats["bfs_export"]["sampled"] = len(systematic)
    behaviours = list(systematic)
    nsimtr = 0
    for r3 in r3s:
        vlib.tlc_must_pass(r3, "RaftStorage.sim.cfg")
        behaviours += r3["traces"]
        nsimtr += len(r3["traces"])
    stats["sim"] = {"generated": sum(x["generated"] for x in r3s), "traces": nsimtr, "num": nsim * nsim_procs}

    def size_family():
        rz_bfs = [f.result() for f in f_szbfs]
        rz_sims = [f.result() for f in f_szsims]
        rnd = random.Random(seed * 7 + 3)
        stats["size_bfs_export"] = []
        size_behaviours = []
        for (c, k, _), rz in zip(sz_bfs, rz_bfs):
            vlib.tlc_must_pass(rz, c)
            chosen = pick(rz["traces"], k, rnd) if k else list(rz["traces"])
            stats["size_bfs_export"].append({"cfg": c, "generated": rz["generated"], "distinct": rz["distinct"],
                                             "traces_with_size_rotation": len(rz["traces"]), "replayed": len(chosen)})
            size_behaviours += chosen
        simtr = []
        for rz in rz_sims:
            vlib.tlc_must_pass(rz, "RaftStorage.size.sim.cfg")
            simtr += rz["traces"]
        # the Export invariant prints every successor of the last step: one behaviour per distinct prefix
        byprefix = {}
        for h in simtr:
            byprefix.setdefault(json.dumps([[s["a"], s["args"]] for s in h[:-1]], sort_keys=True), []).append(h)
        simone = [rnd.choice(byprefix[k]) for k in sorted(byprefix)]
        chosen = pick(simone, sz_sim_keep, rnd)
        stats["size_sim"] = {"generated": sum(x["generated"] for x in rz_sims), "traces_with_size_rotation": len(simtr),
                             "replayed": len(chosen), "num": sz_nsim * sz_sim_procs}
        size_behaviours += chosen
        stats["size_family_behaviours"] = len(size_behaviours)
        return size_behaviours

    return behaviours, size_family, stats, mode_a


def replay_cases(cases, seed):
    """A harness process that dies or hangs (watchdog) is an infrastructure failure - unless other behaviours already
    show a divergence of the real store (a store that went wrong may also make later reads arbitrarily slow)."""
    vh = vlib.build_vh()
    results, errs = vlib.run_vh_parallel(vh, ["replay-raftlog"], cases)
    diverged = any(not r["ok"] and not r.get("infra") for r in results)
    if errs and not diverged:
        raise vlib.Infra(f"harness process failed: {str(errs[0])[:3000]}")
    if len(results) != len(cases) and not diverged:
        raise vlib.Infra(f"harness returned {len(results)} results for {len(cases)} cases")
    if errs:
        vlib.log(f"[C17] note: {len(errs)} harness process(es) died or hung; {len(cases) - len(results)} behaviours have no result: "
                 + str(errs[0])[:300].replace("\n", " | "))
    return results


def judge(results):
    """Split results into violations and known-finding observations (only OPEN listed findings count)."""
    infra = [r for r in results if r.get("infra")]
    if infra:
        raise vlib.Infra(f"harness infra error (specification vs MemoryStorage / harness): {infra[0]}")
    open_ids = {f["id"] for f in vlib.load_known(PROP)}
    bad = [r for r in results if not r["ok"]]
    known = {}
    for r in results:
        if not r.get("known"):
            continue
        for kid in r["known"].split(","):
            if kid in open_ids:
                known.setdefault(kid, []).append(r)
            elif r["ok"]:  # attributed to something that is not a listed open finding
                r["ok"] = False
                r["detail"] = f"divergence matches deviation model {kid}, which is not an open known finding: " + r.get("detail", "")
                bad.append(r)
    return bad, known


def run(tier, seed):
    t0 = time.time()
    behaviours, size_family, stats, mode_a = gen_behaviours(tier, seed)
    cases = [{"id": i, "seed": seed, "hist": h} for i, h in enumerate(behaviours)]
    phases = {"slot_count_family_exported": round(time.time() - t0)}
    vlib.log(f"[C17] {len(cases)} behaviours of the slot-count family exported after {time.time() - t0:.0f}s")
    try:
        results = replay_cases(cases, seed)
        phases["slot_count_family_replayed"] = round(time.time() - t0)
        size_behaviours = size_family()
        cases2 = [{"id": len(cases) + i, "seed": seed, "hist": h} for i, h in enumerate(size_behaviours)]
        vlib.log(f"[C17] slot-count family replayed after {time.time() - t0:.0f}s; {len(cases2)} behaviours of the size-rotation family")
        results += replay_cases(cases2, seed)
        phases["size_family_replayed"] = round(time.time() - t0)
        vlib.log(f"[C17] replayed after {time.time() - t0:.0f}s")
        behaviours, cases = behaviours + size_behaviours, cases + cases2
    finally:
        mode_a()  # Mode A must pass (else exit 2) before any verdict is reported
    phases["mode_a_done"] = round(time.time() - t0)
    stats["phases_s"] = phases
    bad, known = judge(results)
    for kid in sorted(known):
        ex = next((r for r in known[kid] if r["ok"]), known[kid][0])
        d = next((p for p in ex.get("detail", "").split(" || ") if p.startswith(kid)), ex.get("detail", ""))
        print(f"KNOWN-FINDING: property={PROP} {kid} re-observed in {len(known[kid])} behaviours, e.g. {d[:400]}")
    byid = {c["id"]: c for c in cases}
    for r in bad[:5]:
        path = vlib.save_replay(PROP, {"case": byid[r["id"]], "result": r})
        print(f"VIOLATION property={PROP} replay={path}")
        vlib.log(r.get("detail", ""))
    distinct = len({json.dumps([[s["a"], s["args"]] for s in h], sort_keys=True) for h in behaviours})
    # size-rotation family: what the specification predicts and what was OBSERVED in the real store's files
    szb = [h for h in behaviours if h and h[0]["exp"]["cap"]["big"] > 0]
    szc = [size_classes(h) for h in szb]
    szr = [r for r in results if r.get("size_mode")]
    size_cov = {
        "behaviours": len(szb),
        "spec_behaviours_with_size_rotation": sum(1 for c in szc if c["size"]),
        "spec_behaviours_conflicting_batch_rolls_by_size": sum(1 for c in szc if c["conflict"]),
        "spec_behaviours_roll_in_mid_batch": sum(1 for c in szc if c["mid"]),
        "spec_behaviours_conflicting_batch_rolls_before_old_tail_ends": sum(1 for c in szc if c["stale"]),
        "real_big_payloads_written": sum(r.get("big_written", 0) for r in szr),
        "real_size_rotations": sum(r.get("size_rolls", 0) for r in szr),
        "real_behaviours_with_size_rotation": sum(1 for r in szr if r.get("size_rolls")),
        "real_size_rotations_by_conflicting_batch": sum(r.get("conflict_size_rolls", 0) for r in szr),
        "real_size_rotations_in_mid_batch": sum(r.get("mid_batch_rolls", 0) for r in szr),
        "real_size_rotations_by_conflicting_batch_before_old_tail_ends": sum(r.get("stale_tail_rolls", 0) for r in szr),
        "real_layout_drift_steps": sum(r["drift"] for r in szr),
        "behaviours_with_reopen_after_size_rotation": sum(
            1 for h in szb if any(s["a"] == "Reopen" and any(f["n"] < s["exp"]["cap"]["slots"] for f in h[i - 1]["exp"]["files"][:-1])
                                  for i, s in enumerate(h) if i > 0)),
    }
    cov = {
        "states": stats["exh"]["distinct"] + sum(x["distinct"] for x in stats["size_exh"]),
        "transitions": stats["exh"]["generated"] + sum(x["generated"] for x in stats["size_exh"]),
        "traces_validated_against_impl": len(results),
        "samples": [[[s["a"], s["args"]] for s in h] for h in ([behaviours[0], behaviours[-1]] if behaviours else [])],
        "exhaustive": True,
        "evaluations": len(results), "distinct_nontrivial": distinct,
        "rule": "behaviours of RaftStorage.tla (one path per distinct state of the small export config, seeded sample in the "
                "quick tier, + seeded simulation up to 10 abstract entries = 4 real files; size-rotation family: the paths of the "
                "systematic size configs in which a file is rolled by size - seeded sample favouring conflicting batches that roll "
                "before the old tail ends - + seeded simulation); states/transitions = sum over the exhaustive cfgs (slot-count "
                "and size family); distinct = distinct action sequences; after every action all read operators are compared for "
                "boundary arguments, size limits and a full scan",
        "tlc": stats,
        "reads_compared": sum(r["reads"] for r in results),
        "steps_replayed": sum(len(h) for h in behaviours),
        "layout_drift_steps": sum(r["drift"] for r in results),
        "behaviours_with_three_or_more_files": sum(1 for h in behaviours if max(len(s["exp"]["files"]) for s in h) >= 3),
        "behaviours_with_reopen": sum(1 for h in behaviours if any(s["a"] == "Reopen" for s in h)),
        "behaviours_truncating_into_earlier_file": sum(1 for h in behaviours if any(s["exp"]["clob"] for s in h)),
        "known_finding_behaviours": {k: len(v) for k, v in known.items()},
        "size_family": size_cov,
    }
    vlib.write_evidence(PROP, tier, seed, "model_checking", cov, time.time() - t0, len(bad), [
        "TLC bounds as in the cfg files named under coverage.tlc; FileCap abstract slots stand for maxNumEntries = 30000, SizeCap units "
        "for the 31 MiB payload area of a file (maxLogFileSize = 32 MiB)",
        "slot-count family: one abstract entry = a block of concrete entries with seeded block edges (10000/20000 +-1, 1/29999, 1/2, ...), "
        "payloads <= 48 bytes",
        "size-rotation family: uniform blocks of 30000/FileCap concrete entries, a Big entry = a block whose first concrete entry carries a real "
        "payload of 31 MiB/(SizeCap+1) + 256 KiB (+ seeded jitter < 4 KiB), i.e. 8.0 / 10.6 / 15.75 MiB for SizeCap 3 / 2 / 1; at most MaxBig <= 6 "
        "big payloads per behaviour; a single payload larger than the payload area of a file (class Huge, 31 MiB + 64 KiB) in "
        "RaftStorage.size.huge.cfg (FileCap = 30000: one concrete entry per abstract entry; the defect found there, F-C17-3, is repaired by "
        "07237d0); the exact byte boundary of the size test (offset+4+len == 32 MiB) is not probed",
        "store driven in process through the exported API (Init/Save/CreateSnapshot/DeleteBefore/Close), scratch directory on /dev/shm; "
        "entry-file-rw-type 2 (default) in ~80% and 1 in ~20% of the cases",
        "domain: saves continue, overlap or conflict above the snapshot index without gaps; CreateSnapshot only for stored indexes newer than "
        "the current snapshot; installing a snapshot beyond the end of the log (MemoryStorage.ApplySnapshot) and crash points are not explored",
        "clean close/reopen only (no crash injection)",
    ])
    if bad:
        return 1
    # vacuity guard of the size-rotation family: the real store must really have rolled files by size, also in the
    # middle of conflicting batches that supersede entries behind the roll point
    for k in ("real_size_rotations", "real_size_rotations_in_mid_batch", "real_size_rotations_by_conflicting_batch",
              "real_size_rotations_by_conflicting_batch_before_old_tail_ends"):
        if not size_cov[k]:
            raise vlib.Infra(f"size-rotation family is vacuous: {k} = 0 ({size_cov})")
    if size_cov["real_layout_drift_steps"] or cov["layout_drift_steps"]:
        vlib.log(f"[C17] note: real file layout differs from the specification's in {cov['layout_drift_steps']} steps (not a verdict)")
    return 0


def replay(path, seed):
    obj = json.load(open(path))
    res = replay_cases([obj["case"]], seed)
    bad, known = judge(res)
    for kid in sorted(known):
        print(f"KNOWN-FINDING: property={PROP} {kid} re-observed: {known[kid][0].get('detail', '')[:400]}")
    if bad:
        print(f"VIOLATION property={PROP} replay={path}")
        vlib.log(bad[0].get("detail", ""))
        return 1
    print("replay passes")
    return 0


def selftest(seed):
    """Every deviation of the specification must give a TLC counterexample (the invariants are not vacuous)."""
    base = open(os.path.join(vlib.SPECS, "cfg", "RaftStorage.exh.quick.cfg")).read()
    os.makedirs(vlib.WORK, exist_ok=True)
    rc = 0
    size_base = open(os.path.join(vlib.SPECS, "cfg", "RaftStorage.size.exh.quick.cfg")).read()
    huge_base = open(os.path.join(vlib.SPECS, "cfg", "RaftStorage.size.huge.cfg")).read().replace(" ExportHuge", "")
    for d in DEVIATIONS + SIZE_DEVIATIONS + HUGE_DEVIATIONS:
        p = os.path.join(vlib.WORK, f"c17-dev-{d}.cfg")
        b = size_base if d in SIZE_DEVIATIONS else huge_base if d in HUGE_DEVIATIONS else base
        open(p, "w").write(b.replace("Dev = {}", 'Dev = {"%s"}' % d))
        r = vlib.run_tlc("RaftStorageMC", p, timeout=600)
        print(f"deviation {d}: TLC reports {r['violated'] or 'NO VIOLATION'} ({r['distinct']} states, {r['wall_s']:.0f}s)")
        if not r["violated"]:
            rc = 2
        os.remove(p)
    return rc
