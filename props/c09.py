"""C09 - aggregates served from stored statistics equal aggregates over the rows.
Mode A: TLC exhaustively checks specs/PreAgg.tla: layers (memtable / out-of-order / ordered files) whose files carry per
        chunk STORED statistics and segments, the read split as the code splits it (statistics iff the chunk lies inside the
        range and the shortcut is eligible, segment walk of first/last, memtable part, combination), invariant PreAggEq for
        every query of a universe in every reachable layout; every Dev mutation seed must give a counterexample.
Mode B: TLC simulates scheduled behaviours (writes / flushes / out-of-order merge / level compaction / queries whose time
        ranges are drawn from the stored segment and file boundaries); all behaviours of one schedule are replayed in lock
        step into one real single-node ts-server (HTTP; flush, merge and compaction through /debug/ctrl).
Mode C: for every query the aggregate statement and the corresponding plain select are run against the same server state;
        the pairs are written as a trace and TLC (specs/TraceAgg.tla, the evaluator of QuerySem.tla) judges
        f_returned = Agg(f, rows_returned) for every pair."""
import json, os, random, re, sys, time, threading, hashlib, fractions, shutil
import concurrent.futures as cf
import vlib
sys.path.insert(0, os.path.join(vlib.ROOT, "tools"))
import vserver

PROP = "C09"
# many JVMs run side by side here (and next to other checks): every TLC of this check is small
os.environ.setdefault("JAVA_TOOL_OPTIONS", "-Xmx3g")
NONE, EPOCH, NULL = -77, -1000, -99
BADVAL, BADTIME = 777777, 888888
DEVS = ["stats_for_partial_chunk", "stats_not_rebuilt_compact", "stats_not_rebuilt_merge", "edge_exclusive", "null_counted",
        "hint_ignored", "bucket_ignored", "filter_ignored", "mem_forgotten",
        # as-implemented models of open findings (they must break the invariant as well)
        "firstlast_time_of_chunk", "mem_last_time_of_record", "desc_shortcut_swapped", "desc_any_partial"]
DEV_CFG = {"desc_shortcut_swapped": "PreAgg.dev2.cfg", "desc_any_partial": "PreAgg.dev2.cfg"}   # need GROUP BY tags
HINT = "/*+ Exact_Statistic_Query */"
NO_AUTO_FLUSH = {"write-cold-duration": '"1h"', "force-snapShot-duration": '"1h"'}
# the out-of-order merge as PreAgg.MergeOOO models it: every out-of-order file goes into the ordered files at the next tick
# (no intermediate merge of out-of-order files among themselves, no 5 minute pause between two merges of a measurement)
PLAIN_MERGE = {"max-merge-self-level": 0, "min-interval": '"1s"'}
DEFAULT_SEG = 1000

# server plans: name -> (max-rows-per-segment or None, schedule, extra configuration)
# [data.compact] compaction-method: 0 auto (non-streaming for chunks this small), 1 streaming (merges the STORED statistics
# of the input chunks, stream_compact.go), 2 non-streaming (rebuilds them from the rows)
STREAMING, NON_STREAMING = {"data.compact": {"compaction-method": 1}}, {"data.compact": {"compaction-method": 2}}
PLANS_QUICK = [("A", None, "S1", {}), ("B", 2, "S1", {}), ("C", 3, "S2", STREAMING)]
PLANS_THOROUGH = [("A", None, "S1", {}), ("B", 2, "S1", {}), ("C", 3, "S2", STREAMING), ("D", None, "S2", {}),
                  ("E", 5, "S1", {"common": {"cpu-num": 2}, "http": {"chunk-reader-parallel": 1}}), ("F", 2, "S2", NON_STREAMING),
                  ("G", 8, "S1", {"data.merge": None}), ("H", 4, "S2", dict(STREAMING, common={"cpu-num": 2})),
                  ("I", 2, "S1", {}), ("J", 3, "S1", {}), ("K", None, "S2", STREAMING), ("L", 2, "S2", STREAMING)]


def log(*a):
    vlib.log("[c09]", *a)


# ---------------------------------------------------------------------------------------------------
# TLC

def tlc(module, cfg, **kw):
    r = vlib.run_tlc(module, cfg, **kw)
    vlib.tlc_must_pass(r, os.path.basename(cfg))
    return r


def tmp_cfg(base, repl, tag):
    txt = open(os.path.join(vlib.SPECS, "cfg", base)).read()
    for a, b in repl:
        if a not in txt:
            raise vlib.Infra(f"{base}: '{a}' not found")
        txt = txt.replace(a, b)
    os.makedirs(vlib.WORK, exist_ok=True)
    p = os.path.join(vlib.WORK, f"c09.{tag}.{os.getpid()}.cfg")
    open(p, "w").write(txt)
    return p


def mode_a(tier):
    # quick: the reduced query universe (ExhLite); thorough: the full universe, larger batches, three writes
    cfgs = {"exh": "PreAgg.exh.quick.cfg", "exh2": "PreAgg.exh2.quick.cfg"}
    if tier != "quick":
        cfgs = {"exh": "PreAgg.exh.thorough.cfg", "exh2": "PreAgg.exh2.thorough.cfg",
                "exh3": "PreAgg.exh3.thorough.cfg"}
    out = {}
    with cf.ThreadPoolExecutor(len(cfgs)) as ex:
        futs = {k: ex.submit(tlc, "PreAggMC", c, workers=6, timeout=2400) for k, c in cfgs.items()}
        for k, f in futs.items():
            r = f.result()
            out[k] = {x: r[x] for x in ("generated", "distinct", "depth", "wall_s")} | {"cfg": cfgs[k]}
    return out


def vacuity_guard():
    """every Dev name must make TLC find a counterexample to PreAggEqAll; the documented trade-off must be reachable.
    specs/cfg/PreAgg.dev.cfg / PreAgg.dev2.cfg (GROUP BY tags) are templates: Dev = {DEV}"""
    res = {}

    def one(d):
        if d == "":
            p = tmp_cfg("PreAgg.dev.cfg", [("Dev = {DEV}", "Dev = {}"), ("INVARIANTS PreAggEqAll", "INVARIANTS NoDoubleCount")], "neg")
        else:
            p = tmp_cfg(DEV_CFG.get(d, "PreAgg.dev.cfg"), [("Dev = {DEV}", 'Dev = {"%s"}' % d)], "dev." + d)
        try:
            r = vlib.run_tlc("PreAggMC", p, workers=2, timeout=1500)
        finally:
            os.remove(p)
        return d, r

    with cf.ThreadPoolExecutor(5) as ex:
        for d, r in ex.map(one, DEVS + [""]):
            want = "PreAggEqAll" if d else "NoDoubleCount"
            name = d or "(no deviation) NoDoubleCount"
            if r.get("timeout") or r["violated"] != want:
                raise vlib.Infra(f"vacuity guard: Dev={{{d}}} gives no counterexample to {want} "
                                 f"(violated={r['violated']}, error={r['error']})\n" + r["out"][-1500:])
            res[name] = {"violated": r["violated"], "states": r["generated"], "wall_s": round(r["wall_s"], 1)}
    return res


def gen_behaviours(plan, nsim, seed, max_beh, parts=2):
    """scheduled behaviours for one server: simulation of PreAgg with the server's segment size (several TLC runs with
    seeds derived from VERIF_SEED, one simulated trace = one behaviour)"""
    name, seg, sched, _ = plan
    cfg = tmp_cfg(f"PreAgg.sim.{sched}.cfg", [("MaxSeg = 2", f"MaxSeg = {seg or DEFAULT_SEG}")], f"sim.{name}")
    depth = int(re.search(r"Depth = (\d+)", open(cfg).read()).group(1))
    try:
        with cf.ThreadPoolExecutor(parts) as ex:
            rs = list(ex.map(lambda j: tlc("PreAggMC", cfg, simulate=(nsim + parts - 1) // parts, depth=depth,
                                           seed=seed * 1000 + ord(name[0]) + 37 * j, timeout=2400), range(parts)))
    finally:
        os.remove(cfg)
    # behaviours that differ only in the last step come from the same simulated trace: at most two of each are kept
    seen, out = {}, []
    for r in rs:
        for h in r["traces"]:
            k = hashlib.sha1(json.dumps(h[:-1], sort_keys=True).encode()).hexdigest()
            seen[k] = seen.get(k, 0) + 1
            if seen[k] <= 2:
                out.append(h)
    rnd = random.Random(f"{seed}-{name}")
    if len(out) > max_beh:
        out = rnd.sample(out, max_beh)
    return out, {"sim_traces": sum(r["sim_traces"] for r in rs), "exported": sum(len(r["traces"]) for r in rs), "kept": len(out),
                 "states": sum(r["generated"] for r in rs), "wall_s": round(max(r["wall_s"] for r in rs), 1), "schedule": sched,
                 "MaxSeg": seg or DEFAULT_SEG, "depth": depth}


# ---------------------------------------------------------------------------------------------------
# concretisation

STR_PALETTE = ["a 0", "b,1", "c2", "d=3", "e4", "f5", "g6"]
SERIES_TAB = [("a", "x"), ("b", "x"), ("c", "y"), ("a", "y")]
FIELD_ORDER = ["fa", "fb", "fc"]


class Conc:
    """seeded concrete image of one behaviour: measurement name, time base and step, value scales"""

    def __init__(self, idx, kinds, seed, key):
        rnd = random.Random(f"{seed}-{key}")
        self.m = f"m{idx}"
        self.step = rnd.choice([1, 1000, 10 ** 9])
        unit = 60 * self.step
        self.base = rnd.choice([(1_700_000_000 * 10 ** 9 // unit) * unit, 17 * unit, (10 ** 15 // unit) * unit])
        self.kinds = kinds
        self.ki = rnd.choice([1, 3, 1000003])
        self.kf = rnd.choice([0.5, 0.25, 1.5, 1024.0])

    def scale(self, f):
        return {"int": self.ki, "float": self.kf}.get(self.kinds[f], 1)

    def val(self, f, v):
        k = self.kinds[f]
        if k == "int":
            return v * self.ki
        if k == "float":
            return v * self.kf
        if k == "str":
            return STR_PALETTE[v + 1]
        return bool(v)

    def lp_val(self, f, v):
        k, x = self.kinds[f], self.val(f, v)
        if k == "int":
            return f"{x}i"
        if k == "float":
            return repr(float(x))
        if k == "str":
            return '"' + x + '"'
        return "true" if x else "false"

    def lit(self, f, v):
        k, x = self.kinds[f], self.val(f, v)
        if k == "int":
            return str(x)
        if k == "float":
            return repr(float(x))
        if k == "str":
            return "'" + x + "'"
        return "true" if x else "false"

    def t(self, t):
        return self.base + t * self.step

    def lines(self, rows):
        out = []
        for r in rows:
            t1, t2 = SERIES_TAB[r["s"] - 1]
            fs = [f"{f}={self.lp_val(f, v)}" for f, v in sorted(r["v"].items()) if v != NULL]
            out.append(f"{self.m},t1={t1},t2={t2} {','.join(fs)} {self.t(r['t'])}")
        return out

    # ---- abstract images of real values
    def abs_time(self, T, lo=None):
        """abstract image of a time stamp; lo = (concrete inclusive lower bound of the statement, its abstract image)"""
        if T == 0:
            return EPOCH
        if lo and T == lo[0]:
            return lo[1]
        d = T - self.base
        return d // self.step if d % self.step == 0 and abs(d // self.step) < 100000 else BADTIME

    def abs_val(self, f, x):
        """abstract integer of a real field value (BADVAL: not an image of any abstract value)"""
        k = self.kinds[f]
        if x is None:
            return NULL
        if k == "bool":
            return int(x) if isinstance(x, bool) else BADVAL
        if k == "str":
            return STR_PALETTE.index(x) - 1 if x in STR_PALETTE else BADVAL
        if isinstance(x, bool) or not isinstance(x, (int, float)):
            return BADVAL
        q = fractions.Fraction(x) / fractions.Fraction(self.scale(f))
        return int(q) if q.denominator == 1 and abs(q) < 100000 else BADVAL

    def abs_cell(self, fn, f, x):
        if x is None:
            return {"k": "n"}
        if fn == "count":
            return {"k": "i", "v": x if isinstance(x, int) and not isinstance(x, bool) and abs(x) < 100000 else BADVAL}
        if fn == "mean":
            if isinstance(x, bool) or not isinstance(x, (int, float)):
                return {"k": "r", "n": 0, "d": 0}
            q = fractions.Fraction(x) / fractions.Fraction(self.scale(f))
            a = q.limit_denominator(5000)
            ok = abs(q - a) <= fractions.Fraction(1, 10 ** 9) * max(abs(a), fractions.Fraction(1, 10 ** 6))
            return {"k": "r", "n": a.numerator if ok else 0, "d": a.denominator if ok else 0}
        return {"k": "i", "v": self.abs_val(f, x)}

    # ---- query text
    def where(self, q, rnd):
        """(WHERE clause, concrete inclusive lower time bound or None)"""
        w = []
        lo_incl = None
        # three equivalent spellings of each bound (no abstract time lies strictly between t-1 and t): the bound of the
        # engine's inclusive range falls on the row itself, one nanosecond off it, or a whole step off it
        if q["tlo"] != NONE:
            x, r = self.t(q["tlo"]), rnd.random()
            if q["w"] != NONE and r >= 0.7:
                r -= 0.7        # with GROUP BY time() the third spelling would open the window before the bound
            w.append(f"time >= {x}" if r < 0.4 else f"time > {x - 1}" if r < 0.7 else f"time > {self.t(q['tlo'] - 1)}")
            # the engine's inclusive lower bound: the time stamp an aggregate row without interval carries
            lo_incl = x if r < 0.7 else self.t(q["tlo"] - 1) + 1
        if q["thi"] != NONE:
            x, r = self.t(q["thi"]), rnd.random()
            w.append(f"time < {x}" if r < 0.4 else f"time <= {x - 1}" if r < 0.6 else f"time <= {self.t(q['thi'] - 1)}")
        tc, fc = q["tagc"], q["fldc"]
        if tc["k"] == "eq":
            w.append(f"{tc['key']} = '{tc['val']}'")
        elif tc["k"] == "ne":
            w.append(f"{tc['key']} != '{tc['val']}'")
        if fc["k"] != "none":
            op = {"gt": ">", "le": "<=", "eq": "=", "ne": "!=", "lt": "<", "ge": ">="}[fc["k"]]
            w.append(f"{fc['f']} {op} {self.lit(fc['f'], fc['c'])}")
        return ((" WHERE " + " AND ".join(w)) if w else ""), lo_incl

    def fields_of(self, q):
        return [f for f in FIELD_ORDER if f in {c["f"] for c in q["calls"]}]

    def render_pair(self, q, desc, rnd):
        """(aggregate statement, plain select) with the same filter, range and tag grouping"""
        where, lo_incl = self.where(q, rnd)
        sel = ", ".join(f"{c['fn']}({c['f']})" for c in q["calls"])
        agg = f"SELECT {HINT + ' ' if q['hint'] else ''}{sel} FROM {self.m}{where}"
        raw = f"SELECT {', '.join(self.fields_of(q))} FROM {self.m}{where}"
        gb = list(q["dims"])
        if gb:
            raw += " GROUP BY " + ", ".join(gb)
        if q["w"] != NONE:
            d = q["w"] * self.step
            if d % 10 ** 9 == 0 and rnd.random() < 0.7:
                gb.append(f"time({d // 10 ** 9}s)")
            elif d % 1000 == 0 and rnd.random() < 0.5:
                gb.append(f"time({d // 1000}u)")
            else:
                gb.append(f"time({d}ns)")
        if gb:
            agg += " GROUP BY " + ", ".join(gb)
        if q["w"] != NONE:
            if q["fill"] == "none":
                agg += " fill(none)"
            elif rnd.random() < 0.4:
                agg += " fill(null)"
        if desc:
            agg += " ORDER BY time DESC"
            raw += " ORDER BY time DESC"
        return agg, raw, lo_incl


def parse_response(body):
    """(error, series list) of a /query answer"""
    series, err = [], None
    for line in body.splitlines():
        line = line.strip()
        if not line:
            continue
        try:
            doc = json.loads(line)
        except Exception:
            return f"unparsable answer: {line[:200]}", []
        if "error" in doc:
            return doc["error"], []
        for res in doc.get("results", []):
            if "error" in res:
                err = res["error"]
            for s in res.get("series", []) or []:
                series.append({"name": s.get("name", ""), "tags": s.get("tags") or {}, "columns": s["columns"], "values": list(s.get("values") or [])})
    return err, series


# ---------------------------------------------------------------------------------------------------
# one server, many behaviours in lock step

_start_lock = threading.Lock()


class Node:
    def __init__(self, name, conf):
        self.name = name
        with _start_lock:
            for attempt in range(4):
                self.srv = vserver.Server(extra_conf=conf, name="c09" + name, start=False)
                try:
                    self.srv.start(wait=120)
                    break
                except vlib.Infra as ex:
                    self.srv.stop()
                    if "address already in use" not in str(ex) or attempt == 3:
                        raise
                    time.sleep(0.5 + attempt)

    def ddl(self, q):
        st, body = self.srv.query(q, method="POST")
        if st != 200 or "error" in json.dumps(body):
            raise vlib.Infra(f"{q}: {st} {body}")

    def write(self, lines):
        if not lines:
            return
        st, body = 0, ""
        for attempt in range(10):
            st, body = self.srv.write("db0", lines)
            if st == 204:
                return
            if st == 500 and ("shard group not found" in body or "shard not found" in body or "timeout" in body):
                time.sleep(0.3)
                continue
            raise vlib.Infra(f"write failed: {st} {body[:300]}")
        raise vlib.Infra(f"write failed after retries: {st} {body[:300]}")

    def ctrl(self, **params):
        st, body = self.srv.http("POST", "/debug/ctrl", params)
        if st != 200 or "fail" in body.lower() and "failpoint" not in body.lower():
            raise vlib.Infra(f"/debug/ctrl {params}: {st} {body[:300]}")

    def query(self, text):
        st, body = self.srv.http("GET", "/query", {"db": "db0", "epoch": "ns", "q": text}, timeout=60)
        if st != 200:
            return f"HTTP {st}: {body[:300]}", []
        return parse_response(body)

    def files(self):
        """{measurement: [ordered files, out-of-order files]} of the data directory"""
        out = {}
        for root, dirs, files in os.walk(os.path.join(self.srv.dir, "data")):
            n = sum(1 for f in files if f.endswith(".tssp"))
            if not n:
                continue
            parts = root.split(os.sep)
            if "tssp" not in parts:
                continue
            i = parts.index("tssp")
            if len(parts) <= i + 1:
                continue
            mst = parts[i + 1].rsplit("_", 1)[0]
            o = out.setdefault(mst, [0, 0])
            o[1 if parts[-1] == "out-of-order" else 0] += n
        return out

    def stop(self):
        self.srv.stop()


class Beh:
    """one behaviour being replayed: its history, concrete image and the model of what has been written"""

    def __init__(self, idx, hist, seed):
        self.idx, self.hist = idx, hist
        kinds = next((e["kinds"] for e in hist if "kinds" in e), None)
        if kinds is None:
            raise vlib.Infra("behaviour without kinds")
        self.key = hashlib.sha1(json.dumps(hist, sort_keys=True).encode()).hexdigest()[:10]
        self.conc = Conc(idx, kinds, seed, self.key)
        self.rows = {}          # (s, t) -> {f: v} last-write-wins image (expected visibility only)
        self.dirty = False
        self.drifted = False    # the real file counts differ from the specification's (latest comparison)

    def apply(self, rows):
        for r in rows:
            cur = self.rows.setdefault((r["s"], r["t"]), {})
            for f, v in r["v"].items():
                if v != NULL:
                    cur[f] = v
        if rows:
            self.dirty = True


class Replay:
    def __init__(self, plan, behs, seed, tier, open_ids):
        self.plan, self.seed, self.tier = plan, seed, tier
        self.name, self.seg, self.sched_name, extra = plan
        self.behs = [Beh(i, h, seed) for i, h in enumerate(behs)]
        self.conf = {"data.memtable": dict(NO_AUTO_FLUSH), "data.merge": dict(PLAIN_MERGE)}
        if self.seg:
            self.conf["data"] = {"max-rows-per-segment": self.seg}
        for k, v in extra.items():
            if v is None:
                self.conf.pop(k, None)          # a plan may ask for the server's default of a section
            else:
                self.conf.setdefault(k, {}).update(v)
        self.depth = max(len(h) for h in behs) if behs else 0
        self.lines = []        # trace lines (pairs)
        self.meta = {}         # line id -> info
        self.lock = threading.Lock()
        self.nq = 0
        self.drift = 0
        self.shape_checks = 0
        self.steps = 0
        self.open = open_ids
        self.errors = []
        self.switched_off = False

    # ---- synchronisation: every acknowledged row must be visible before a pair is judged (index / meta lag)
    def wait_visible(self, node, timeout=90):
        todo = [b for b in self.behs if b.dirty]
        t0 = time.time()
        while todo and time.time() - t0 < timeout:
            nxt = []
            for b in todo:
                err, series = node.query(f"SELECT * FROM {b.conc.m}")
                n = sum(len(s["values"]) for s in series)
                if err or n < len(b.rows):
                    nxt.append(b)
                else:
                    b.dirty = False
            todo = nxt
            if todo:
                time.sleep(0.25)
        if todo:
            b = todo[0]
            raise vlib.Infra(f"server {self.name}: rows of {b.conc.m} not visible after {timeout}s (expected {len(b.rows)})")

    def shape_check(self, node, k):
        real = node.files()
        for b in self.behs:
            if k < len(b.hist) and "shape" in b.hist[k]:
                sh = b.hist[k]["shape"]
                r = real.get(b.conc.m, [0, 0])
                b.drifted = r != [sh["no"], sh["nu"]]
                self.shape_checks += 1
                if b.drifted:
                    self.drift += 1

    def wait_files(self, node, k, timeout):
        """after enabling a background reorganisation: wait until the file counts are the specification's"""
        t0 = time.time()
        while time.time() - t0 < timeout:
            real = node.files()
            ok = True
            for b in self.behs:
                if k < len(b.hist) and "shape" in b.hist[k]:
                    sh = b.hist[k]["shape"]
                    if real.get(b.conc.m, [0, 0]) != [sh["no"], sh["nu"]]:
                        ok = False
                        break
            if ok:
                time.sleep(0.5)
                return True
            time.sleep(0.5)
        return False

    # ---- one pair
    def ask(self, node, b, k, e, desc):
        q = e["q"]
        rnd = random.Random(f"{self.seed}-{b.key}-{k}-{desc}")
        agg_text, raw_text, lo_incl = b.conc.render_pair(q, desc, rnd)
        lo = (lo_incl, q["tlo"]) if lo_incl is not None else None
        err1, agg = node.query(agg_text)
        err2, raw = node.query(raw_text)
        with self.lock:
            self.nq += 2
        c = b.conc
        fields = c.fields_of(q)
        info = {"server": self.name, "beh": b.idx, "step": k, "desc": desc, "agg_text": agg_text, "raw_text": raw_text,
                "side": e["side"], "elig": e["elig"], "cross": e["cross"], "dup": e["dup"], "agree": e["agree"], "q": q,
                "shape": e["shape"], "seg": self.seg or DEFAULT_SEG, "m": c.m, "served": e["served"], "drifted": b.drifted}
        if err1 or err2:
            info["error"] = f"aggregate: {err1}; plain: {err2}"
            with self.lock:
                self.errors.append(info)
            return
        groups = {}

        def gkey(tags):
            return tuple((d, tags.get(d, "")) for d in q["dims"])
        for s in raw:
            g = groups.setdefault(gkey(s["tags"]), {"rows": [], "agg": []})
            pos = {f: s["columns"].index(f) if f in s["columns"] else -1 for f in fields}
            for v in s["values"]:
                row = [c.abs_time(v[0])] + [NULL, NULL]
                for f in fields:
                    if pos[f] >= 0:
                        row[1 + FIELD_ORDER.index(f)] = c.abs_val(f, v[pos[f]])
                g["rows"].append(row)
        for s in agg:
            g = groups.setdefault(gkey(s["tags"]), {"rows": [], "agg": []})
            if len(s["columns"]) != 1 + len(q["calls"]):
                info["error"] = f"aggregate answer has columns {s['columns']}"
                with self.lock:
                    self.errors.append(info)
                return
            for v in s["values"]:
                g["agg"].append([c.abs_time(v[0], lo)] + [c.abs_cell(cl["fn"], cl["f"], v[1 + j]) for j, cl in enumerate(q["calls"])])
        preds = [{"id": "+".join(sorted(p["ids"])), "ans": p["ans"]} for p in e["known"]["desc" if desc else "asc"]]
        if not e["side"] and e["split"]:
            preds.append({"id": "TRADEOFF", "ans": e["split"]})
        line = {"id": 0, "kinds": {f: c.kinds.get(f, "int") for f in ("fa", "fb")}, "calls": q["calls"], "tlo": q["tlo"], "thi": q["thi"],
                "w": q["w"], "fill": q["fill"], "desc": desc,
                "groups": [{"tags": [list(p) for p in k_], "rows": g["rows"], "agg": g["agg"]} for k_, g in sorted(groups.items())],
                "preds": preds}
        info["real_agg"] = [[s["tags"], s["values"]] for s in agg]
        info["real_rows"] = sum(len(s["values"]) for s in raw)
        with self.lock:
            line["id"] = len(self.lines) + 1 + self.id_base
            self.lines.append(line)
            self.meta[line["id"]] = info
            info["line"] = line

    id_base = 0

    def run(self):
        node = Node(self.name, self.conf)
        try:
            node.ddl("create database db0 with duration 0s shard duration 100000h name rp0")
            node.ctrl(mod="compen", allshards="false")
            node.ctrl(mod="merge", allshards="false")
            for k in range(self.depth):
                kinds = {b.hist[k]["a"] for b in self.behs if k < len(b.hist)}
                if len(kinds) != 1:
                    raise vlib.Infra(f"behaviours of one schedule disagree at step {k}: {kinds}")
                a = kinds.pop()
                self.steps += 1
                if a == "Write":
                    lines = []
                    for b in self.behs:
                        rows = b.hist[k]["rows"]
                        b.apply(rows)
                        lines += b.conc.lines(rows)
                    rnd = random.Random(f"{self.seed}-{self.name}-{k}")
                    # one request for all measurements, or one per measurement
                    if rnd.random() < 0.5:
                        node.write(lines)
                    else:
                        by = {}
                        for ln in lines:
                            by.setdefault(ln.split(",", 1)[0], []).append(ln)
                        for ls in by.values():
                            node.write(ls)
                    if lines and not self.switched_off:
                        # /debug/ctrl?mod=compen only reaches the shards that exist: the shard is created by the first
                        # write, with level compaction switched ON; it is switched off here, long before a measurement
                        # can have the eight level-0 files a compaction needs
                        node.ctrl(mod="compen", allshards="false")
                        node.ctrl(mod="merge", allshards="false")
                        self.switched_off = True
                elif a == "Flush":
                    self.wait_visible(node)
                    node.srv.flush()
                    self.shape_check(node, k)
                elif a == "Merge":
                    node.ctrl(mod="merge", allshards="true")
                    self.wait_files(node, k, 30 + len(self.behs) // 2)
                    node.ctrl(mod="merge", allshards="false")
                    time.sleep(0.3)
                    self.shape_check(node, k)
                elif a == "Compact":
                    node.ctrl(mod="compen", allshards="true")
                    self.wait_files(node, k, 30 + len(self.behs) // 2)
                    node.ctrl(mod="compen", allshards="false")
                    time.sleep(0.3)
                    self.shape_check(node, k)
                elif a == "Ask":
                    self.wait_visible(node)
                    self.shape_check(node, k)       # the layout the predictions of this step were computed for
                    jobs = []
                    for b in self.behs:
                        e = b.hist[k]
                        rnd = random.Random(f"{self.seed}-{b.key}-{k}")
                        dirs = [False] + ([True] if (self.tier != "quick" or rnd.random() < 0.34) else [])
                        for desc in dirs:
                            jobs.append((node, b, k, e, desc))
                    with cf.ThreadPoolExecutor(6) as ex:
                        for f in [ex.submit(self.ask, *j) for j in jobs]:
                            f.result()
                else:
                    raise vlib.Infra(f"unknown action {a}")
                if not node.srv.alive():
                    raise vlib.Infra(f"server {self.name} died at step {k} ({a}):\n" + node.srv.tail_log())
        finally:
            node.stop()


# ---------------------------------------------------------------------------------------------------
# Mode C: TLC judges the pairs

def judge(lines, nproc=6):
    """{line id: verdict} by TLC (TraceAgg.tla)"""
    if not lines:
        return {}, {"lines": 0, "states": 0}
    chunks = [lines[i::nproc] for i in range(min(nproc, len(lines)))]
    verdicts, states = {}, 0

    def one(chunk):
        d = vlib.scratch("c09-trace")
        try:
            tp = os.path.join(d, "trace.ndjson")
            with open(tp, "w") as f:
                for ln in chunk:
                    f.write(json.dumps(ln) + "\n")
            r = vlib.run_tlc("TraceAgg", "TraceAgg.cfg", workers=1, timeout=2400, copy_files=[tp])
        finally:
            shutil.rmtree(d, ignore_errors=True)
        vlib.tlc_must_pass(r, "TraceAgg.cfg")
        vs = {int(a): b for a, b in re.findall(r'<<"JUDGE", (\d+), "([^"]+)">>', r["out"])}
        if len(vs) != len(chunk):
            raise vlib.Infra(f"TraceAgg judged {len(vs)} of {len(chunk)} lines\n" + r["out"][-2000:])
        return vs, r["generated"]

    with cf.ThreadPoolExecutor(len(chunks)) as ex:
        for vs, n in ex.map(one, chunks):
            verdicts.update(vs)
            states += n
    return verdicts, {"lines": len(lines), "states": states}


# ---------------------------------------------------------------------------------------------------
# attribution

def layers(info):
    sh = info["shape"]
    return sh["no"] + sh["nu"] + (1 if sh["mem"] else 0)


def predicate_finding(info, open_ids):
    """open findings of C08 whose wrong answers cannot be predicted: attributed through the finding's predicate exactly as
    props/c08.py does (they concern the path that reads and merges rows, never the statistics shortcut)"""
    q = info["q"]
    if info["elig"]:
        return ""
    if q["fldc"]["k"] != "none":
        if layers(info) >= 2 and "F-C08-7" in open_ids:
            return "F-C08-7"
        if q["fldc"]["f"] not in {c["f"] for c in q["calls"]} and "F-C08-6" in open_ids:
            return "F-C08-6"
    if layers(info) >= 2 and (info["desc"] or info["seg"] != DEFAULT_SEG) and "F-C08-8" in open_ids:
        return "F-C08-8"
    return ""


DRIFT_ID = "F-C09-1/F-C09-2/F-C09-3 (by predicate: the server's file layout differs from the specification's, the exported predictions do not apply)"


def drift_finding(info, open_ids):
    """the predictions of the deviation models are computed for the specification's layout; when the real file counts of
    the behaviour differ (a background merge / compaction did something else) a rejected first()/last() pair that takes the
    shortcut can only be attributed through the common predicate of F-C09-1/2/3; everything else stays a violation"""
    q = info["q"]
    if info.get("drifted") and info["elig"] and any(c["fn"] in ("first", "last") for c in q["calls"]) \
            and all(i in open_ids for i in ("F-C09-1", "F-C09-2", "F-C09-3")):
        return DRIFT_ID
    return ""


def open_findings():
    ids = {f["id"]: f for f in vlib.load_known(PROP)}
    ids.update({f["id"]: f for f in vlib.load_known("C08")})
    return ids


def classify(replays, verdicts, open_ids):
    """-> violations, known {id: [info]}, logged (outside the side condition) counters"""
    viol, known, outside = [], {}, {"pairs": 0, "equal": 0, "tradeoff_as_predicted": 0, "other": 0}
    for rp in replays:
        for info in rp.errors:
            viol.append(dict(info, verdict="error", detail=info["error"]))
        for lid, info in rp.meta.items():
            v = verdicts.get(lid)
            if v is None:
                raise vlib.Infra(f"line {lid} was not judged")
            info["verdict"] = v
            if not info["side"]:
                outside["pairs"] += 1
                outside["equal" if v == "ok" else "tradeoff_as_predicted" if v == "TRADEOFF" else "other"] += 1
                continue
            if v == "ok":
                continue
            if v == "TRADEOFF":
                raise vlib.Infra("TRADEOFF verdict inside the side condition")
            if v != "bad":
                ids = v.split("+")
                if all(i in open_ids for i in ids):
                    for i in ids:
                        known.setdefault(i, []).append(info)
                    continue
                v = "bad"         # predicted by the model of a finding that is not (or no longer) open
            kid = predicate_finding(info, open_ids) or drift_finding(info, open_ids)
            if kid:
                known.setdefault(kid, []).append(info)
            else:
                viol.append(dict(info, detail="aggregate answer is not the function of the returned rows"))
    return viol, known, outside


# ---------------------------------------------------------------------------------------------------

def run_plans(plans, tier, seed, nsim, max_beh, parallel):
    """per server: generate its behaviours (TLC simulation), replay them; `parallel` servers at a time"""
    open_ids = open_findings()
    replays, stats, errs = [None] * len(plans), {}, []

    def work(i):
        plan = plans[i]
        try:
            behs, st = gen_behaviours(plan, nsim, seed, max_beh, 2 if tier == "quick" else 4)
            if not behs:
                raise vlib.Infra(f"no behaviours for server {plan[0]}")
            rp = Replay(plan, behs, seed, tier, open_ids)
            rp.id_base = i * 1000000
            t0 = time.time()
            rp.run()
            st["replay_wall_s"] = round(time.time() - t0, 1)
            stats[plan[0]] = st
            replays[i] = rp
        except BaseException as ex:   # noqa
            errs.append(ex)

    with cf.ThreadPoolExecutor(parallel) as ex:
        list(ex.map(work, range(len(plans))))
    if errs:
        for e in errs:
            if not isinstance(e, vlib.Infra):
                raise e
        raise errs[0]
    return replays, stats


def run(tier, seed):
    t0 = time.time()
    vserver.build_server()
    quick = tier == "quick"
    with cf.ThreadPoolExecutor(3) as ex:
        fa = ex.submit(mode_a, tier)
        fv = ex.submit(vacuity_guard)
        plans = PLANS_QUICK if quick else PLANS_THOROUGH
        fr = ex.submit(run_plans, plans, tier, seed, 36 if quick else 120, 36 if quick else 120, 3 if quick else 4)
        a_stats, vac = fa.result(), fv.result()
        replays, stats = fr.result()
    log(f"Mode A {a_stats}; replay done at {time.time() - t0:.1f}s")
    lines = [ln for rp in replays for ln in rp.lines]
    verdicts, jstats = judge(lines)
    viol, known, outside = classify(replays, verdicts, open_findings())
    return report(tier, seed, t0, a_stats, vac, replays, stats, jstats, viol, known, outside, verdicts)


def report(tier, seed, t0, a_stats, vac, replays, stats, jstats, viol, known, outside, verdicts):
    for kid in sorted(known):
        rs = known[kid]
        ex = rs[0]
        print(f"KNOWN-FINDING: property={PROP} {kid} re-observed for {len(rs)} pairs, e.g. server {ex['server']} "
              f"(max-rows-per-segment {ex['seg']}) [{ex['agg_text']}] -> {json.dumps(ex.get('real_agg'))[:300]}")
    nviol = 0
    seen = set()
    byname = {rp.name: rp for rp in replays}
    for r in viol:
        k = (r["server"], r["beh"], r["step"])
        if k in seen:
            continue
        seen.add(k)
        nviol += 1
        if nviol <= 8:
            rp = byname[r["server"]]
            path = vlib.save_replay(PROP, {"plan": list(rp.plan), "hist": rp.behs[r["beh"]].hist, "idx": r["beh"], "seed": seed,
                                          "result": {x: r[x] for x in r if x not in ("q", "line")}})
            print(f"VIOLATION property={PROP} replay={path}")
            vlib.log(f"  server {r['server']} step {r['step']} {'desc' if r['desc'] else 'asc'}: {r['agg_text']}\n    -> {json.dumps(r.get('real_agg'))[:400]}"
                     f"\n    plain: {r['raw_text']} ({r.get('real_rows')} rows)  {r.get('detail', '')}")
    allmeta = [i for rp in replays for i in rp.meta.values()]
    judged = [i for i in allmeta if i["side"]]
    cov = {
        "states": sum(v["distinct"] for v in a_stats.values()),
        "transitions": sum(v["generated"] for v in a_stats.values()),
        "traces_validated_against_impl": sum(len(rp.behs) for rp in replays),
        "samples": [replays[0].behs[0].hist[:3], lines_sample(replays)],
        "exhaustive": True,
        "evaluations": sum(rp.nq for rp in replays),
        "distinct_nontrivial": len({(i["server"], i["beh"], i["step"]) for i in judged if i.get("real_rows")}),
        "rule": "behaviours = scheduled histories of PreAgg.tla (seeded simulation) replayed in lock step into real ts-server "
                "processes; evaluations = real statements run (every query as a pair: aggregate + plain select); distinct = "
                "(behaviour, query) pairs inside the statement's side condition whose plain select returned rows; every pair is "
                "judged by TLC (TraceAgg.tla): aggregate answer = function applied to the returned rows",
        "tlc": {"mode_a": a_stats, "vacuity_guard": vac, "sim": stats, "judge": jstats},
        "pairs_judged": len(judged), "pairs_ok": sum(1 for i in judged if i["verdict"] == "ok"),
        "pairs_eligible_for_shortcut": sum(1 for i in judged if i["elig"]),
        "pairs_with_hint": sum(1 for i in judged if i["q"]["hint"]),
        "shortcut_parts": {k: sum(i["served"][k] for i in judged) for k in ("stat", "data", "mem", "multiseg")},
        "pairs_mixing_statistics_and_data": sum(1 for i in judged if i["served"]["stat"] and (i["served"]["data"] or i["served"]["mem"])),
        "pairs_with_bucket": sum(1 for i in judged if i["q"]["w"] != NONE),
        "pairs_with_field_filter": sum(1 for i in judged if i["q"]["fldc"]["k"] != "none"),
        "pairs_descending": sum(1 for i in judged if i["desc"]),
        "outside_side_condition_logged": outside,
        "known_finding_pairs": {k: len(v) for k, v in known.items()},
        "divergent_pairs": nviol,
        "layout_drift_steps": sum(rp.drift for rp in replays),     # (behaviour, step) comparisons of file counts that differ
        "layout_comparisons": sum(rp.shape_checks for rp in replays),
        "pairs_of_drifted_behaviours": sum(1 for i in judged if i.get("drifted")),
        "steps_replayed": sum(rp.steps for rp in replays),
        "servers": {rp.name: {"max-rows-per-segment": rp.seg or DEFAULT_SEG, "schedule": rp.sched_name, "behaviours": len(rp.behs)} for rp in replays},
    }
    vlib.write_evidence(PROP, tier, seed, "model_checking", cov, time.time() - t0, nviol, [
        "TLC bounds as in the cfg files named under coverage.tlc",
        "single-node ts-server over HTTP; one database, one shard (shard group duration 100000h), one measurement per behaviour",
        "flush through /debug/ctrl?mod=flush (all measurements at once: behaviours of one server share a schedule); out-of-order merge and "
        "level compaction by enabling the background workers for up to 30 s; file counts compared with the specification's (drift is recorded, not judged)",
        "every acknowledged row is waited for (select *) before a pair is judged, as the statement allows for index / meta lag",
        "pairs outside the statement's side condition (cross-generation overwrite, no hint / filter / bucket) are logged, not judged",
        "mean compared as an exact rational against the float within 1e-9; ties among equal time stamps / equal extreme values: any",
    ])
    log(f"{cov['evaluations']} statements, {len(judged)} pairs judged, {nviol} violations, known {cov['known_finding_pairs']}, "
        f"outside {outside}, layout drift {cov['layout_drift_steps']}/{cov['layout_comparisons']} comparisons, wall {time.time() - t0:.1f}s")
    return 1 if nviol else 0


def lines_sample(replays):
    for rp in replays:
        if rp.lines:
            return rp.lines[-1]
    return {}


def replay(path, seed):
    obj = json.load(open(path))
    seed = obj.get("seed", seed)
    vserver.build_server()
    open_ids = open_findings()
    rp = Replay(tuple(obj["plan"]), [obj["hist"]], seed, "thorough", open_ids)
    # same concretisation as in the original run
    rp.behs[0].idx = obj.get("idx", 0)
    rp.behs[0].conc = Conc(obj.get("idx", 0), rp.behs[0].conc.kinds, seed, rp.behs[0].key)
    rp.run()
    verdicts, _ = judge(rp.lines, nproc=2)
    viol, known, outside = classify([rp], verdicts, open_ids)
    for r in viol[:5]:
        vlib.log(f"  step {r['step']} {'desc' if r['desc'] else 'asc'}: {r['agg_text']} -> {json.dumps(r.get('real_agg'))[:400]}\n    plain: {r['raw_text']}"
                 f"\n    pair as judged: {json.dumps(r.get('line'))[:3000]}")
    if viol:
        print(f"VIOLATION property={PROP} replay={path}")
        return 1
    print("replay passes" + (f" (known findings re-observed: {sorted(known)})" if known else ""))
    return 0


def selftest(seed):
    res = vacuity_guard()
    for d, r in res.items():
        print(f"Dev={{{d}}}: counterexample to {r['violated']} ({r['states']} states, {r['wall_s']}s)")
    return 0
