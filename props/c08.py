"""C08 - query answers follow the language and ignore chunking and parallelism.
Mode A: TLC exhaustively checks specs/QuerySem.tla: ChunkIndependence of the chunk machine (every stream up to the
        bound under every partition into chunks, incl. "the chunk is the last one" = the first chunk already complete;
        sum, count and last() over tied points) and the Laws of the semantics over a tiny universe (incl. what FILL puts
        into every single cell and the tie rules refining the language's alternatives).
Mode B: TLC evaluates (data set, query) pairs (seeded simulation of the query grammar + BFS over fixed data sets + the
        shape families: complementary nulls x multi-field fill queries, tied points x selectors) and
        exports the expected answers; every data set is loaded into real single-node servers (one per server-side
        configuration) and every query is run under the configuration matrix
            {ascending, descending} x {not chunked, chunked=true&chunk_size=1|2} x {inner_chunk_size default,1,2,3}
            x {memtable, flushed, file + memtable, two files} x {chunk_reader_parallel, binary_tree_merge}
            x server configs (ptnum-pernode, cpu-num, chunk-reader-parallel, max-rows-per-segment)
        each answer must be one the specification accepts, and all answers of a query must be the SAME."""
import json, os, random, sys, time, threading, hashlib, fractions
import concurrent.futures as cf
import vlib
sys.path.insert(0, os.path.join(vlib.ROOT, "tools"))
import vserver

PROP = "C08"
NONE, EPOCH = -77, -1000
NO_ANSWER = "no answer within 60 s and, asked again, within 30 s"
MAX_TIMEOUTS = 6        # per server: after that many unanswered queries the remaining ones are not asked any more
DEVS_LAWS = ["count_includes_null", "desc_not_reversed", "limit_before_offset", "bucket_trunc", "fill_skips_present_cells"]
DEVS_CHUNK = ["agg_reset_at_chunk", "fillprev_forgets_at_chunk", "limit_per_chunk", "last_later_chunk_wins",
              "fill_fastpath_skips_cells"]

# the memtable must stay a memtable until the check flushes it (default: flushed 5 s after the last write)
NO_AUTO_FLUSH = {"write-cold-duration": '"1h"', "force-snapShot-duration": '"1h"'}
SERVER_CONFS = {
    # name -> extra_conf of vserver.Server
    "A": {"data.memtable": NO_AUTO_FLUSH},
    "B": {"common": {"cpu-num": 2}, "meta": {"ptnum-pernode": 3}, "http": {"chunk-reader-parallel": 1},
          "data": {"max-rows-per-segment": 3}, "data.memtable": NO_AUTO_FLUSH},
}

# ---------------------------------------------------------------------------------------------------
# TLC


# several TLC processes run side by side: each JVM is capped (the default heap is a quarter of the RAM, and the machine's
# OOM killer has taken TLC runs of this check when eight of them grew at once)
if "-Xmx" not in os.environ.get("JAVA_TOOL_OPTIONS", ""):
    os.environ["JAVA_TOOL_OPTIONS"] = (os.environ.get("JAVA_TOOL_OPTIONS", "") + " -Xmx3g").strip()


def tlc(cfg, **kw):
    r = vlib.run_tlc("QuerySemMC", cfg, **kw)
    vlib.tlc_must_pass(r, cfg)
    return r


def gen_cases(tier, seed, defer=False):
    stats = {}
    quick = tier == "quick"
    c1 = "QuerySem.chunk.quick.cfg" if quick else "QuerySem.chunk.thorough.cfg"
    c2 = "QuerySem.laws.quick.cfg" if quick else "QuerySem.laws.thorough.cfg"
    stride = 100 if quick else 10
    sstride = 100 if quick else 50

    def sample_cfg(name, st, choices, sample):
        """a seeded sample of an enumerated universe: every st-th query, starting at seed % st"""
        txt = open(os.path.join(vlib.SPECS, "cfg", f"QuerySem.{name}.export.cfg")).read()
        txt = txt.replace("BfsStride = 1", f"BfsStride = {st}").replace("BfsOff = 0", f"BfsOff = {seed % st}")
        txt = txt.replace(f"QueryChoices <- {choices}", f"QueryChoices <- {sample}")
        path = os.path.join(vlib.WORK, f"QuerySem.{name}.sample.{os.getpid()}.cfg")
        open(path, "w").write(txt)
        return path

    os.makedirs(vlib.WORK, exist_ok=True)
    bcfg = sample_cfg("bfs", stride, "BfsQueries", "BfsSample")
    scfg = sample_cfg("shape", sstride, "ShapeQueries", "ShapeSample")
    # Mode A (chunk machine, laws; thorough: also the second laws universe, the negative times and the longer-window
    # chunk machine) and the generators run side by side; the replay starts as soon as the generators are done and
    # Mode A is joined by finish() before the verdict (it must pass, else vlib.Infra)
    ex = cf.ThreadPoolExecutor(8)
    nsim = 14 if quick else 24
    mode_a = {"chunk": (c1, ex.submit(tlc, c1, workers=6 if quick else 4, timeout=2400)),
              "laws": (c2, ex.submit(tlc, c2, workers=6 if quick else 3, timeout=2400))}
    f3 = ex.submit(tlc, "QuerySem.sim.cfg", simulate=nsim, depth=16, seed=seed, timeout=2400)
    f4 = ex.submit(tlc, bcfg, workers=2, timeout=2400)
    f7 = ex.submit(tlc, scfg, workers=2, timeout=2400)
    if not quick:
        mode_a["laws_neg"] = ("QuerySem.laws.neg.cfg", ex.submit(tlc, "QuerySem.laws.neg.cfg", workers=2, timeout=2400))
        mode_a["chunk5"] = ("QuerySem.chunk.thorough5.cfg", ex.submit(tlc, "QuerySem.chunk.thorough5.cfg", workers=5, timeout=2400))
        mode_a["laws2"] = ("QuerySem.laws.thorough2.cfg", ex.submit(tlc, "QuerySem.laws.thorough2.cfg", workers=3, timeout=2400))
    try:
        r3, r4, r7 = f3.result(), f4.result(), f7.result()
    except BaseException:
        ex.shutdown(wait=True, cancel_futures=True)
        raise
    finally:
        os.remove(bcfg)
        os.remove(scfg)
    stats["sim"] = {"traces": len(r3["traces"]), "num": nsim, "wall_s": r3["wall_s"]}
    stats["bfs"] = {"traces": len(r4["traces"]), "stride": stride, "wall_s": r4["wall_s"]}
    stats["shape"] = {"traces": len(r7["traces"]), "stride": sstride, "wall_s": r7["wall_s"]}

    def finish():
        """joins Mode A: every exhaustive run must have passed"""
        try:
            for name, (cfg, fut) in mode_a.items():
                r = fut.result()
                stats[name] = {k: r[k] for k in ("generated", "distinct", "depth", "wall_s")} | {"cfg": cfg}
        finally:
            ex.shutdown(wait=True, cancel_futures=True)
    # (data set, query) pairs, grouped by data set
    sets, order = {}, []

    def add(h, src):
        d = h[0]
        key = json.dumps(d, sort_keys=True)
        if key not in sets:
            sets[key] = {"data": d, "cases": {}, "src": src}
            order.append(key)
        for e in h[1:]:
            qk = json.dumps(e["q"], sort_keys=True)
            sets[key]["cases"].setdefault(qk, e)

    for h in r3["traces"]:
        add(h, "sim")
    bfs = r4["traces"]
    rnd = random.Random(seed)
    for h in bfs:
        add(h, "bfs")
    for h in r7["traces"]:
        add(h, "shape")
    out = []
    for key in order:
        s = sets[key]
        cs = list(s["cases"].values())
        out.append({"data": s["data"], "cases": cs, "src": s["src"]})
    # quick ~360 pairs, thorough ~1300; the enumerated families (bfs, shape) are kept whole, simulated cases are trimmed
    cap = 360 if quick else 1300
    total = sum(len(s["cases"]) for s in out)
    while total > cap and len(out) > 3:
        s = max((x for x in out if x["src"] == "sim"), key=lambda x: len(x["cases"]), default=None)
        if s is None or len(s["cases"]) <= 4:
            break
        s["cases"] = s["cases"][:-1]
        total -= 1
    stats["data_sets"] = len(out)
    stats["pairs"] = sum(len(s["cases"]) for s in out)
    if defer:
        return out, stats, finish
    finish()
    return out, stats


# ---------------------------------------------------------------------------------------------------
# concretisation of one data set

STR_PALETTE = ["a 0", "b,1", "c2", "d=3", "e4", "f5", "g6"]


class Conc:
    """Seeded concrete image of an abstract data set: measurement names, time scale, value scales."""

    def __init__(self, idx, data, seed):
        self.idx = idx
        self.data = data
        self.key = hashlib.sha1(json.dumps(data, sort_keys=True).encode()).hexdigest()[:10]
        rnd = random.Random(f"{seed}-{self.key}")
        self.m = f"m{idx}"          # written in one go: memtable -> one file
        self.n = f"n{idx}"          # written in two parts around a flush: file + memtable -> two files
        self.step = rnd.choice([1, 1000, 10 ** 9, 600 * 10 ** 9, 600 * 10 ** 9])
        unit = 60 * self.step
        self.base = rnd.choice([0, (1_700_000_000 * 10 ** 9 // unit) * unit])
        self.kinds = data["kinds"]
        self.ki = rnd.choice([1, 3, 1000003])
        self.kf = rnd.choice([0.5, 0.25, 1.5, 1024.0])
        self.rnd_seed = rnd.random()
        self.rows = data["rows"]

    # ---- values
    def val(self, f, v):
        k = self.kinds[f]
        if k == "int":
            return v * self.ki
        if k == "float":
            return v * self.kf
        if k == "str":
            return STR_PALETTE[v + 1]
        return bool(v)

    def lp_val(self, f, v):
        k = self.kinds[f]
        x = self.val(f, v)
        if k == "int":
            return f"{x}i"
        if k == "float":
            return repr(float(x))
        if k == "str":
            return '"' + x + '"'
        return "true" if x else "false"

    def lit(self, f, v):
        k = self.kinds[f]
        x = self.val(f, v)
        if k == "int":
            return str(x)
        if k == "float":
            return repr(float(x))
        if k == "str":
            return "'" + x + "'"
        return "true" if x else "false"

    def t(self, t):
        return 0 if t == EPOCH else self.base + t * self.step

    def lines(self, mst, rows, fields=None):
        tab = [("a", "x"), ("b", "x"), ("c", "y"), ("a", "y")]
        out = []
        for r in rows:
            t1, t2 = tab[r["s"] - 1]
            fs = [f"{f}={self.lp_val(f, v)}" for f, v in sorted(r["v"].items())
                  if v != -99 and (fields is None or (r["s"], r["t"], f) in fields)]
            if fs:
                out.append(f"{mst},t1={t1},t2={t2} {','.join(fs)} {self.t(r['t'])}")
        return out

    def split(self):
        """two write parts of the copy n: rows and single fields of rows are distributed over the parts"""
        rnd = random.Random(self.rnd_seed)
        p1, p2 = set(), set()
        for r in self.rows:
            fs = [f for f, v in r["v"].items() if v != -99]
            mode = rnd.random()
            for f in fs:
                if mode < 0.4:
                    p1.add((r["s"], r["t"], f))
                elif mode < 0.8:
                    p2.add((r["s"], r["t"], f))
                else:
                    (p1 if rnd.random() < 0.5 else p2).add((r["s"], r["t"], f))
        return p1, p2

    def nseries(self):
        return len({r["s"] for r in self.rows})

    def mem_last_expectation(self, exp, q):
        """F-C09-3 (open finding of C09, engine/iterators_helper.go set...ColumnMeta): while a part of the split copy is
        still in the memtable, the memtable's LAST value of a column is paired with the time of the memtable record's
        last row, so an eligible query (no interval, no field condition) with last() and calls on >= 2 fields may return
        a memtable value of the column that is older than the true last point.  Returns the expected answer with these
        alternatives added to the last() cells (everything else exact), or None if the predicate does not hold."""
        if q["kind"] != "agg" or q["w"] != NONE or q["fldc"]["k"] != "none":
            return None
        calls = q["calls"]
        if not any(c["fn"] == "last" for c in calls) or len({c["f"] for c in calls}) < 2:
            return None
        if not hasattr(self, "_parts"):
            self._parts = self.split()
        p2 = self._parts[1]
        tab = [{"t1": "a", "t2": "x"}, {"t1": "b", "t2": "x"}, {"t1": "c", "t2": "y"}, {"t1": "a", "t2": "y"}]
        tc = q["tagc"]

        def tag_ok(sid):
            tags = tab[sid - 1]
            if tc["k"] == "eq":
                return tags[tc["key"]] == tc["val"]
            if tc["k"] == "ne":
                return tags[tc["key"]] != tc["val"]
            if tc["k"] == "re":
                return tags[tc["key"]] in tc["vals"]
            return True
        out = []
        for s_ in exp:
            group = dict((k, v) for k, v in s_["tags"])
            rows = []
            for r in s_["rows"]:
                cells = []
                for ci, c in enumerate(calls):
                    cell = r["c"][ci]
                    if c["fn"] == "last" and cell[0] == "v":
                        extra = {x["v"][c["f"]] for x in self.rows
                                 if (x["s"], x["t"], c["f"]) in p2 and tag_ok(x["s"])
                                 and all(tab[x["s"] - 1][k] == v for k, v in group.items())
                                 and (q["tlo"] == NONE or x["t"] >= q["tlo"]) and (q["thi"] == NONE or x["t"] < q["thi"])}
                        cell = ["v"] + sorted(set(cell[1:]) | extra)
                    cells.append(cell)
                rows.append({"t": r["t"], "c": cells})
            out.append(dict(s_, rows=rows))
        return out

    # ---- query text
    def render(self, q, mst, desc, rnd):
        if q["kind"] == "raw":
            sel = ", ".join(q["sel"])
        else:
            sel = ", ".join(f"{c['fn']}({c['f']})" for c in q["calls"])
        w = []
        if q["tlo"] != NONE:
            x = self.t(q["tlo"])
            w.append(f"time >= {x}" if rnd.random() < 0.6 else f"time > {x - 1}")
        if q["thi"] != NONE:
            x = self.t(q["thi"])
            w.append(f"time < {x}" if rnd.random() < 0.6 else f"time <= {x - 1}")
        tc, fc = q["tagc"], q["fldc"]
        parts = []
        if tc["k"] == "eq":
            parts.append(f"{tc['key']} = '{tc['val']}'")
        elif tc["k"] == "ne":
            parts.append(f"{tc['key']} != '{tc['val']}'")
        elif tc["k"] == "re":
            parts.append(f"{tc['key']} =~ /^({'|'.join(sorted(tc['vals']))})$/")
        if fc["k"] != "none":
            op = {"gt": ">", "le": "<=", "eq": "=", "ne": "!=", "lt": "<", "ge": ">="}[fc["k"]]
            parts.append(f"{fc['f']} {op} {self.lit(fc['f'], fc['c'])}")
        if parts:
            j = " OR " if q["conn"] == "or" else " AND "
            w.append("(" + j.join(parts) + ")" if len(parts) > 1 else parts[0])
        s = f"SELECT {sel} FROM {mst}"
        if w:
            s += " WHERE " + " AND ".join(w)
        gb = list(q["dims"])
        if q["w"] != NONE:
            d = q["w"] * self.step
            if d % 10 ** 9 == 0 and rnd.random() < 0.7:
                gb.append(f"time({d // 10 ** 9}s)")
            elif d % 1000 == 0 and rnd.random() < 0.5:
                gb.append(f"time({d // 1000}u)")
            else:
                gb.append(f"time({d}ns)")
        if gb:
            s += " GROUP BY " + ", ".join(gb)
        if q["kind"] == "agg" and q["w"] != NONE:
            if q["fill"] == "none":
                s += " fill(none)"
            elif q["fill"] == "prev":
                s += " fill(previous)"
            elif q["fill"] == "num":
                s += f" fill({q['fillv']})"
            elif rnd.random() < 0.3:
                s += " fill(null)"
        if desc:
            s += " ORDER BY time DESC"
        if q["lim"] != NONE:
            s += f" LIMIT {q['lim']}"
        if q["off"] != NONE:
            s += f" OFFSET {q['off']}"
        return s


def parse_response(body):
    """(error, series list) of a possibly chunked /query answer; partial series are re-assembled"""
    series, err, pend = [], None, False
    for line in body.splitlines():
        line = line.strip()
        if not line:
            continue
        try:
            doc = json.loads(line)
        except Exception:
            return f"unparsable answer: {line[:200]}", []
        if "error" in doc:
            return doc["error"], []
        for res in doc.get("results", []):
            if "error" in res:
                err = res["error"]
            for s in res.get("series", []) or []:
                tags = s.get("tags") or {}
                if series and pend and series[-1]["name"] == s["name"] and series[-1]["tags"] == tags \
                        and series[-1]["columns"] == s["columns"]:
                    series[-1]["values"] += s.get("values") or []
                else:
                    if pend and series:
                        series[-1]["broken_partial"] = True
                    series.append({"name": s["name"], "tags": tags, "columns": s["columns"], "values": list(s.get("values") or [])})
                pend = bool(s.get("partial"))
    return err, series


def num_eq(a, e):
    return not isinstance(a, bool) and isinstance(a, (int, float)) and a == e


class Judge:
    """compares a real answer with the specification's expectation (acceptable set) for one case"""

    def __init__(self, conc, q):
        self.c, self.q = conc, q

    def cell_ok(self, exp, act, f):
        c = self.c
        k = exp[0]
        if k == "w":        # deviation models only: anything
            return True
        if k == "o":        # deviation models only: either of two cells
            return self.cell_ok(exp[1], act, f) or self.cell_ok(exp[2], act, f)
        if k == "n":
            return act is None
        if k == "t":
            return act == exp[1]
        if k == "c":
            return num_eq(act, exp[1])
        if k == "m":
            if isinstance(act, bool) or not isinstance(act, (int, float)):
                return False
            e = fractions.Fraction(c.val(f, 1)) * exp[1] / exp[2]
            return abs(fractions.Fraction(act) - e) <= fractions.Fraction(1, 10 ** 9) * max(abs(e), fractions.Fraction(1, 10 ** 300))
        # "v": alternatives
        kind = c.kinds[f]
        for a in exp[1:]:
            x = c.val(f, a)
            if kind in ("int", "float"):
                if num_eq(act, x):
                    return True
            elif kind == "bool":
                if isinstance(act, bool) and act == x:
                    return True
            elif act == x:
                return True
        return False

    def series_ok(self, exp, act, mst):
        """exp: one expected series, act: one real series"""
        q, c = self.q, self.c
        if act["name"] != mst:
            return f"series name {act['name']}"
        if q["kind"] == "raw":
            cols = exp["cols"]
            fields = cols
        else:
            cols = None
            fields = [cl["f"] for cl in q["calls"]]
        if len(act["columns"]) != 1 + len(fields) or act["columns"][0] != "time":
            return f"columns {act['columns']}"
        if cols is not None and act["columns"][1:] != cols:
            return f"columns {act['columns']} expected {cols}"
        vals = act["values"]
        if q["kind"] == "agg":
            if len(vals) != len(exp["rows"]):
                return f"{len(vals)} rows, expected {len(exp['rows'])}"
            for i, (er, ar) in enumerate(zip(exp["rows"], vals)):
                if ar[0] not in [c.t(t) for t in er["t"]]:
                    return f"row {i}: time {ar[0]} not in {[c.t(t) for t in er['t']]}"
                for j, f in enumerate(fields):
                    if not self.cell_ok(er["c"][j], ar[1 + j], f):
                        return f"row {i} (time {ar[0]}) column {j + 1}: got {ar[1 + j]!r}, expected {self.show(er['c'][j], f)}"
            return ""
        # raw: time groups
        pos = 0
        for gi, g in enumerate(exp["rows"]):
            t = c.t(g["t"])
            got = []
            while pos < len(vals) and vals[pos][0] == t:
                got.append(vals[pos])
                pos += 1
            if len(got) != g["k"]:
                nxt = vals[pos][0] if pos < len(vals) else None
                return f"time group {gi} (time {t}): {len(got)} rows, expected {g['k']} (next row time {nxt})"
            cands = list(g["c"])
            for ar in got:
                hit = None
                for ci, cand in enumerate(cands):
                    if all(self.cell_ok(cand[j], ar[1 + j], fields[j]) for j in range(len(fields))):
                        hit = ci
                        break
                if hit is None:
                    return f"time {t}: row {ar} is none of the expected rows {[[self.show(x, fields[j]) for j, x in enumerate(cd)] for cd in cands]}"
                cands.pop(hit)
        if pos != len(vals):
            return f"unexpected row {vals[pos]} after {pos} rows"
        return ""

    def desc_limit_loose_ok(self, exp_series, series, mst):
        """F-C08-11: with /debug/ctrl chunk_reader_parallel limit=1 a descending plain selection with LIMIT (no OFFSET, no
        field condition) returns the right NUMBER of rows, each of them a genuine row of the selection, in descending
        order and none twice - but not the newest ones."""
        q, c = self.q, self.c
        if q["kind"] != "raw" or q["lim"] == NONE or q["off"] != NONE or q["fldc"]["k"] != "none" or q["dims"]:
            return False
        if len(exp_series) != 1 or len(series) != 1 or series[0]["name"] != mst or series[0].get("tags"):
            return False
        cols = exp_series[0]["cols"]
        if series[0]["columns"] != ["time"] + cols:
            return False
        vals = series[0]["values"]
        if len(vals) != sum(g["k"] for g in exp_series[0]["rows"]):
            return False
        tab = [{"t1": "a", "t2": "x"}, {"t1": "b", "t2": "x"}, {"t1": "c", "t2": "y"}, {"t1": "a", "t2": "y"}]
        tc = q["tagc"]

        def tag_ok(tags):
            if tc["k"] == "eq":
                return tags[tc["key"]] == tc["val"]
            if tc["k"] == "ne":
                return tags[tc["key"]] != tc["val"]
            if tc["k"] == "re":
                return tags[tc["key"]] in tc["vals"]
            return True
        fields = [x for x in cols if x not in ("t1", "t2")]
        cands = []
        for r in c.rows:
            tags = tab[r["s"] - 1]
            if not tag_ok(tags) or (q["tlo"] != NONE and r["t"] < q["tlo"]) or (q["thi"] != NONE and r["t"] >= q["thi"]):
                continue
            if all(r["v"][f] == -99 for f in fields):
                continue
            cands.append((c.t(r["t"]), [["t", tags[x]] if x in tags else (["n"] if r["v"][x] == -99 else ["v", r["v"][x]]) for x in cols]))
        prev = None
        for ar in vals:
            if prev is not None and ar[0] > prev:
                return False
            prev = ar[0]
            hit = None
            for i, (t, cells) in enumerate(cands):
                if t == ar[0] and all(self.cell_ok(cells[k], ar[1 + k], cols[k]) for k in range(len(cols))):
                    hit = i
                    break
            if hit is None:
                return False
            cands.pop(hit)
        return True

    def show(self, cell, f):
        k = cell[0]
        if k == "w":
            return "*"
        if k == "o":
            return {"either": [self.show(cell[1], f), self.show(cell[2], f)]}
        if k == "n":
            return None
        if k in ("t", "c"):
            return cell[1]
        if k == "m":
            return f"{self.c.val(f, 1)}*{cell[1]}/{cell[2]}"
        xs = [self.c.val(f, a) for a in cell[1:]]
        return xs[0] if len(xs) == 1 else {"any of": xs}

    def answer_ok(self, exp_series, series, mst):
        """'' or a description of the first difference"""
        def tagkey(tags):
            return tuple(sorted(tags.items()))
        em = {}
        for s in exp_series:
            em[tagkey({k: v for k, v in s["tags"]})] = s
        am = {}
        for s in series:
            if s.get("broken_partial"):
                return f"series {s['tags']} flagged partial but not continued"
            k = tagkey(s["tags"])
            if k in am:
                return f"series {s['tags']} returned twice"
            am[k] = s
        if set(em) != set(am):
            return f"series {sorted(am)} expected {sorted(em)}"
        for k in sorted(em):
            d = self.series_ok(em[k], am[k], mst)
            if d:
                return f"series {dict(k)}: {d}"
        return ""


def canon(series):
    """configuration independent form of an answer: series by tags, rows with equal time stamps sorted"""
    out = []
    for s in sorted(series, key=lambda s: sorted(s["tags"].items())):
        vals, i = [], 0
        v = s["values"]
        while i < len(v):
            j = i
            while j < len(v) and v[j][0] == v[i][0]:
                j += 1
            vals += sorted(v[i:j], key=lambda r: json.dumps(r))
            i = j
        out.append([sorted(s["tags"].items()), s["columns"], vals])
    return json.dumps(out)


# ---------------------------------------------------------------------------------------------------
# servers

VARIANTS = [(ch, ics) for ch in (None, 1, 2) for ics in (None, 1, 2, 3)]


_start_lock = threading.Lock()


class Node:
    def __init__(self, name, conf):
        self.name = name
        # vserver picks its port block from pid + clock: servers are started one at a time, with a retry
        with _start_lock:
            for attempt in range(4):
                self.srv = vserver.Server(extra_conf=conf, name="c08" + name, start=False)
                try:
                    self.srv.start(wait=120)
                    break
                except vlib.Infra as ex:
                    self.srv.stop()         # never leave a half started server behind
                    if "address already in use" not in str(ex) or attempt == 3:
                        raise
                    time.sleep(0.5 + attempt)
        self.lock = threading.Lock()
        self.timeouts = 0

    def ddl(self, q):
        st, body = self.srv.query(q, method="POST")
        if st != 200 or "error" in json.dumps(body):
            raise vlib.Infra(f"{q}: {st} {body}")

    def write(self, lines):
        if not lines:
            return
        for attempt in range(8):
            st, body = self.srv.write("db0", lines)
            if st == 204:
                return
            if st == 500 and "shard group not found" in body or "shard not found" in body or "timeout" in body:
                time.sleep(0.3)
                continue
            raise vlib.Infra(f"write failed: {st} {body[:300]}")
        raise vlib.Infra(f"write failed after retries: {st} {body[:300]}")

    def ctrl(self, **params):
        st, body = self.srv.http("POST", "/debug/ctrl", params)
        if st != 200 or "fail" in body.lower() and "failpoint" not in body.lower():
            raise vlib.Infra(f"/debug/ctrl {params}: {st} {body[:300]}")

    def wait_series(self, expect, timeout=60):
        """expect: {measurement: number of series}; polled until every new series is visible"""
        t0 = time.time()
        missing = dict(expect)
        while missing and time.time() - t0 < timeout:
            for m in list(missing):
                st, res = self.srv.query(f"show series from {m}", db="db0")
                n = 0
                for s in self.srv.series_of(res if isinstance(res, dict) else {}):
                    n += len(s.get("values") or [])
                if n >= missing[m]:
                    del missing[m]
            if missing:
                time.sleep(0.3)
        if missing:
            raise vlib.Infra(f"series not visible after {timeout}s: {missing}")

    def wait_rows(self, expect, timeout=60):
        """expect: {measurement: number of rows}; a row written into a shard group that was just created is not visible
        to queries until the sql side has refreshed its meta data: polled until every row is returned"""
        t0 = time.time()
        missing = dict(expect)
        while missing and time.time() - t0 < timeout:
            for m in list(missing):
                err, series = self.run_query(f"select * from {m}", None, None)
                if not err and sum(len(s["values"]) for s in series) >= missing[m]:
                    del missing[m]
            if missing:
                time.sleep(0.3)
        if missing:
            raise vlib.Infra(f"rows not visible after {timeout}s: {missing}")

    def wait_merged(self, timeout):
        """True once no out-of-order file is left in the data directory (the merge is a background task)"""
        t0 = time.time()
        while time.time() - t0 < timeout:
            left = 0
            for root, dirs, files in os.walk(os.path.join(self.srv.dir, "data")):
                if os.path.basename(root) == "out-of-order":
                    left += sum(1 for f in files if f.endswith(".tssp"))
            if left == 0:
                time.sleep(1.0)
                return True
            time.sleep(0.5)
        return False

    def run_query(self, text, chunked, ics):
        p = {"db": "db0", "epoch": "ns", "q": text}
        if chunked:
            p["chunked"] = "true"
            p["chunk_size"] = str(chunked)
        if ics:
            p["inner_chunk_size"] = str(ics)
        # a query of these sizes answers within milliseconds; one that does not answer within 60 s, and again not within
        # 30 s, is reported as such (a real behaviour: e.g. an ordered merge that never terminates)
        for attempt, tmo in enumerate((60, 30)):
            try:
                st, body = self.srv.http("GET", "/query", p, timeout=tmo)
                break
            except (TimeoutError, OSError) as ex:
                if not self.srv.alive():
                    raise vlib.Infra(f"ts-server {self.name} died: {self.srv.tail_log(1500)}")
                if attempt == 1:
                    self.timeouts += 1
                    return f"{NO_ANSWER} ({type(ex).__name__})", []
        if st != 200:
            return f"HTTP {st}: {body[:300]}", []
        return parse_response(body)

    def stop(self):
        self.srv.stop()


# ---------------------------------------------------------------------------------------------------

def expand_ids(kid):
    """'F-C08-1+2+4' -> ['F-C08-1', 'F-C08-2', 'F-C08-4']"""
    parts = kid.split("+")
    return [parts[0]] + ["F-C08-" + x for x in parts[1:]]


def predicate_finding(q, mst_kind, open_ids, desc=False, ics=None, small_segments=False):
    """findings whose wrong answers cannot be predicted (they depend on the layout and on the order in which series are
    read): any divergence of a query satisfying the finding's predicate is attributed to it"""
    if q["fldc"]["k"] != "none":
        if mst_kind == "n" and "F-C08-7" in open_ids:
            return "F-C08-7"
        if q["kind"] == "agg" and q["fldc"]["f"] not in {c["f"] for c in q["calls"]} and "F-C08-6" in open_ids:
            return "F-C08-6"
    if mst_kind == "n" and (desc or ics in (1, 2, 3) or small_segments) and q["kind"] == "agg" and "F-C08-8" in open_ids:
        return "F-C08-8"
    return ""


def has_alternatives(exp_series):
    """does the expected answer leave a choice (several alternatives of a cell or of a row time)?"""
    for s_ in exp_series:
        for r in s_["rows"]:
            if "k" in r:
                continue
            if len(r["t"]) > 1 or any(c[0] == "v" and len(c) > 2 for c in r["c"]):
                return True
    return False


def load_known():
    return {f["id"]: f for f in vlib.load_known(PROP)}


class Run:
    def __init__(self, tier, seed, sets, confs):
        self.tier, self.seed = tier, seed
        self.sets = sets
        self.concs = [Conc(i, s["data"], seed) for i, s in enumerate(sets)]
        self.confs = confs
        self.results = []        # divergences
        self.lock = threading.Lock()
        self.nq = 0
        self.ref = {}            # (set, case, desc) -> (canonical answer, config label)
        self.tiecut = {}         # (set, case, desc) -> canonical answers seen, for LIMIT cuts through tied rows
        self.offrule = {}        # (set, case, desc) -> runs whose (accepted) answer is not the tie rules' pick
        self.skipped = 0         # queries not asked any more after MAX_TIMEOUTS unanswered ones on a server
        self.known = {}          # finding id -> [details]
        self.by_round = {}
        self.open = load_known()
        # open findings of other properties whose mechanism this check runs into (attributed by their own model)
        self.open_other = {f["id"] for f in vlib.load_known("C09")}

    def cases(self):
        for si, s in enumerate(self.sets):
            for ci, e in enumerate(s["cases"]):
                yield si, ci, e

    def one(self, node, label, si, ci, e, mst_kind, desc, chunked, ics):
        conc = self.concs[si]
        q = e["q"]
        mst = conc.m if mst_kind == "m" else conc.n
        rnd = random.Random(f"{self.seed}-{si}-{ci}-{desc}")
        text = conc.render(q, mst, desc, rnd)
        if node.timeouts >= MAX_TIMEOUTS:
            with self.lock:
                self.skipped += 1
            return
        err, series = node.run_query(text, chunked, ics)
        cfg = f"{label} {'desc' if desc else 'asc'} chunked={chunked} inner_chunk_size={ics}"
        with self.lock:
            self.nq += 1
            self.by_round[label] = self.by_round.get(label, 0) + 1
        dirn = "desc" if desc else "asc"
        exp = e["exp"][dirn]
        j = Judge(conc, q)
        if err:
            d = f"query failed: {err}"
        else:
            d = j.answer_ok(exp, series, mst)
        kid = ""
        if d and not err:
            # attributed to an open finding only if the answer is one its deviation model predicts
            for k in e["exp"]["known"]:
                ids = expand_ids(k["id"])
                # F-C09-1 (C09): needs a file whose chunks have several segments: small max-rows-per-segment, flushed data
                if "F-C09-1" in ids and not ("max-rows-per-segment" in self.confs[node.name].get("data", {})
                                             and "/memtable/" not in label + "/"):
                    continue
                # F-C08-4: the model that is exact wherever the preceding input row decides holds when the fill
                # operator sees the whole answer of an ungrouped query as one chunk; elsewhere the loose one
                one_chunk = not q["dims"] and ics is None
                if "fillprev_prevrow" in k["devs"] and not one_chunk or "fillprev_wild" in k["devs"] and one_chunk:
                    continue
                # F-C08-5 without tags: the split path needs more windows than twice the inner chunk size
                if "descfill_lossy_nodims" in k["devs"] and not (ics and max((len(s_["rows"]) for s_ in exp), default=0) > 2 * ics):
                    continue
                if all(i in self.open or i in self.open_other for i in ids) and j.answer_ok(k[dirn], series, mst) == "":
                    kid = k["id"]
                    break
            if not kid and "F-C08-11" in self.open and desc and "/memtable/" not in label + "/" \
                    and j.desc_limit_loose_ok(exp, series, mst):
                kid = "F-C08-11"
            if not kid and "F-C09-3" in self.open_other and mst_kind == "n" and "file+memtable" in label and not desc:
                alt = conc.mem_last_expectation(exp, q)
                if alt is not None and j.answer_ok(alt, series, mst) == "":
                    kid = "F-C09-3"
            if not kid:
                kid = predicate_finding(q, mst_kind, self.open, desc, ics,
                                        "max-rows-per-segment" in self.confs[node.name].get("data", {}))
        rec = None
        if d:
            rec = {"set": si, "case": ci, "config": cfg, "server": node.name, "query": text, "detail": d, "known": kid,
                   "mst_kind": mst_kind, "desc": desc, "chunked": chunked, "ics": ics, "label": label}
        elif not err and any(g["k"] < len(g["c"]) for s_ in exp for g in s_["rows"] if q["kind"] == "raw"):
            # LIMIT/OFFSET cuts through rows with equal time stamps: which of them are returned is left open by the
            # language (it follows the order in which series are merged); recorded, not judged
            cn = canon([dict(s, name="") for s in series])
            with self.lock:
                self.tiecut.setdefault((si, ci, desc), set()).add(cn)
        elif not err:
            # the answer must be a function of contents and query text: the same under every configuration.
            # The language leaves the pick among tied points open; the implementation's tie rules (exp.tie, QuerySem
            # TieCell / TieTimes) say which one it returns: narrow = this answer is one those rules predict
            tie = e["exp"]["tie"][0][dirn] if e["exp"]["tie"] else exp
            narrow = tie is exp or j.answer_ok(tie, series, mst) == ""
            cn = canon([dict(s, name="") for s in series])
            key = (si, ci, desc)
            with self.lock:
                ref = self.ref.setdefault(key, (cn, cfg, text, narrow))
                if not narrow:
                    self.offrule[key] = self.offrule.get(key, 0) + 1
            if ref[0] != cn:
                alts = has_alternatives(tie)
                if q["kind"] == "agg" and not alts and narrow and ref[3]:
                    pass        # the rules predict ONE answer and both are it: equal up to the tolerance of mean()
                else:
                    # both answers are acceptable to the language, so they differ only in the pick among tied points.
                    # F-C08-9 (store and executor disagree on a boolean first() and on descending queries) predicts a
                    # configuration dependent pick only among the alternatives the tie rules leave; any other
                    # dependence on the configuration is a violation
                    pred = narrow and ref[3] and alts
                    rec = {"set": si, "case": ci, "config": cfg, "server": node.name, "query": text,
                           "known": "F-C08-9" if pred and "F-C08-9" in self.open else "",
                           "detail": ("answer depends on the configuration" if pred else
                                      "answer depends on the configuration and one of the answers is not what the tie "
                                      "rules of the implementation (same time: greater value, same value: earliest "
                                      "time) predict") + f": {cn} here, {ref[0]} under [{ref[1]}]",
                           "mst_kind": mst_kind, "desc": desc, "chunked": chunked, "ics": ics, "label": label}
        if rec:
            with self.lock:
                self.results.append(rec)

    def sentinel_btm(self, node):
        """F-C08-3: with binary_tree_merge=1 every answer is empty; one plain query re-observes it, then the switch is off"""
        pick = None
        for si, ci, e in self.cases():
            q = e["q"]
            if q["kind"] == "raw" and q["fldc"]["k"] == "none" and q["lim"] == NONE and e["exp"]["asc"]:
                pick = (si, ci, e)
                break
        if pick is None:
            return
        si, ci, e = pick
        conc = self.concs[si]
        text = conc.render(e["q"], conc.m, False, random.Random(f"{self.seed}-{si}-{ci}-False"))
        node.ctrl(mod="binary_tree_merge", enabled="1")
        try:
            err, series = node.run_query(text, None, None)
        finally:
            node.ctrl(mod="binary_tree_merge", enabled="0")
        with self.lock:
            self.nq += 1
        d = err or Judge(conc, e["q"]).answer_ok(e["exp"]["asc"], series, conc.m)
        if not d:
            vlib.log(f"[c08] server {node.name}: F-C08-3 not re-observed (binary_tree_merge=1 answered correctly)")
            return
        kid = "F-C08-3" if (not err and series == [] and "F-C08-3" in self.open) else ""
        with self.lock:
            self.results.append({"set": si, "case": ci, "config": f"{node.name}/binary_tree_merge=1", "server": node.name, "query": text,
                                 "detail": "empty answer: " + d, "known": kid, "mst_kind": "m", "desc": False, "chunked": None,
                                 "ics": None, "label": f"{node.name}/binary_tree_merge=1"})

    def round(self, node, label, plan, tag):
        """plan: {copy: full?}; every case is run on the named copies under all 24 (direction, chunking, inner chunk size)
        variants (full) or under a seeded sample of 6 of them"""
        jobs = []
        for si, ci, e in self.cases():
            for mk in plan:
                for (desc, chunked, ics) in self.variants(plan[mk], tag)(si, ci, mk):
                    jobs.append((node, label + "/" + {"m": "single", "n": "split"}[mk], si, ci, e, mk, desc, chunked, ics))
        with cf.ThreadPoolExecutor(6) as ex:
            for f in [ex.submit(self.one, *j) for j in jobs]:
                f.result()

    def variants(self, full, tag):
        def f(si, ci, mk):
            if full:
                return [(d, ch, ics) for d in (False, True) for (ch, ics) in VARIANTS]
            rnd = random.Random(f"{self.seed}-{tag}-{si}-{ci}-{mk}")
            out = []
            for d in (False, True):
                vs = [(None, None)] if rnd.random() < 0.5 else []
                vs += rnd.sample(VARIANTS, 3 - len(vs))
                out += [(d, ch, ics) for ch, ics in vs]
            return out
        return f

    def drive(self, name, conf):
        """life of one server: load, rounds, flushes"""
        node = Node(name, conf)
        full = self.tier != "quick"
        try:
            node.ddl("create database db0 with duration 0s shard duration 1h name rp0")
            # layouts stay as the check builds them: no background compaction / out-of-order merge until asked for
            node.ctrl(mod="compen", allshards="false")
            node.ctrl(mod="merge", allshards="false")
            # 1. everything of the 'single' copies into the memtable
            for c in self.concs:
                node.write(c.lines(c.m, c.rows))
            node.wait_series({c.m: c.nseries() for c in self.concs})
            node.wait_rows({c.m: len(c.rows) for c in self.concs})
            self.round(node, f"{name}/memtable", {"m": full}, "r1")
            # 2. first part of the 'split' copies, flush, second part
            parts = [c.split() for c in self.concs]
            for c, (p1, p2) in zip(self.concs, parts):
                node.write(c.lines(c.n, c.rows, p1))
            node.srv.flush()
            for c, (p1, p2) in zip(self.concs, parts):
                node.write(c.lines(c.n, c.rows, p2))
            node.wait_series({c.n: c.nseries() for c in self.concs})
            node.wait_rows({c.n: len(c.rows) for c in self.concs})
            node.ctrl(mod="chunk_reader_parallel", limit="1")
            self.round(node, f"{name}/flushed,file+memtable,chunk_reader_parallel=1", {"m": False, "n": full}, "r2")
            # 3. second flush: the split copies are two files (ordered + out of order)
            node.srv.flush()
            node.ctrl(mod="chunk_reader_parallel", limit="4")
            self.round(node, f"{name}/two files,chunk_reader_parallel=4", {"n": full, "m": False} if full else {"n": False}, "r3")
            self.sentinel_btm(node)
            if full:
                # 4. let the out-of-order merge and the compaction run: "after compaction"
                node.ctrl(mod="chunk_reader_parallel", limit="0")
                node.ctrl(mod="merge", allshards="true")
                node.ctrl(mod="compen", allshards="true")
                if node.wait_merged(90):
                    self.round(node, f"{name}/merged,chunk_reader_parallel=0", {"n": False}, "r4")
                else:
                    vlib.log(f"[c08] server {name}: out-of-order files not merged within 90s, phase skipped")
        finally:
            node.stop()

    def run(self):
        errs = []

        def work(name):
            try:
                self.drive(name, self.confs[name])
            except BaseException as ex:   # noqa
                errs.append(ex)
        ths = [threading.Thread(target=work, args=(n,)) for n in self.confs]
        for t in ths:
            t.start()
        for t in ths:
            t.join()
        if errs:
            for e in errs:
                if not isinstance(e, vlib.Infra):
                    raise e
            raise errs[0]


def report(run, sets, stats, tier, seed, t0):
    bad = [r for r in run.results if not r["known"]]
    known = [r for r in run.results if r["known"]]
    open_ids = set(run.open)
    for kid in sorted({r["known"] for r in known}):
        rs = [r for r in known if r["known"] == kid]
        pairs = {(r["set"], r["case"]) for r in rs}
        print(f"KNOWN-FINDING: property={PROP} {kid} re-observed for {len(pairs)} (data set, query) pairs in {len(rs)} runs, e.g. "
              f"[{rs[0]['query']}] {rs[0]['detail'][:300]}")
    seen = set()
    nviol = 0
    for r in bad:
        k = (r["set"], r["case"])
        if k in seen:
            continue
        seen.add(k)
        if nviol < 8:
            s = sets[r["set"]]
            path = vlib.save_replay(PROP, {"data": s["data"], "case": s["cases"][r["case"]], "idx": r["set"], "case_idx": r["case"],
                                          "seed": seed, "result": r})
            print(f"VIOLATION property={PROP} replay={path}")
            vlib.log(f"  [{r['config']}] {r['query']}\n    {r['detail'][:600]}")
        nviol += 1
    cov = {
        "states": sum(stats[k]["distinct"] for k in ("chunk", "laws", "laws2", "laws_neg", "chunk5") if k in stats),
        "transitions": sum(stats[k]["generated"] for k in ("chunk", "laws", "laws2", "laws_neg", "chunk5") if k in stats),
        "traces_validated_against_impl": stats["pairs"],
        "samples": [sets[0]["cases"][0]["q"], sets[-1]["cases"][-1]["q"]] if sets else [],
        "exhaustive": True,
        "evaluations": run.nq,
        "distinct_nontrivial": stats["pairs"],
        "rule": "(data set, query) pairs evaluated by TLC (seeded simulation of the query grammar incl. complementary-null data "
                "sets and window aligned multi-field aggregates + a strided sample of the BFS family over two fixed data sets + a "
                "seeded sample of the shape families: fill family over two complementary-null data sets, tie family over two "
                "data sets with tied newest / oldest points and tied extreme values); distinct = distinct (data set, query "
                "structure); evaluations = real queries run (pairs x configurations), each compared with the specification's "
                "acceptable answers and with the other configurations' answers; a configuration dependent answer is accepted as "
                "F-C08-9 only if all answers are picks the implementation's tie rules (QuerySem TieCell / TieTimes) predict",
        "tlc": stats,
        "queries_by_round": run.by_round,
        "server_configs": SERVER_CONFS,
        "divergent_pairs": nviol,
        "limit_cuts_through_ties": {"queries": len(run.tiecut), "with_configuration_dependent_choice": sum(1 for v in run.tiecut.values() if len(v) > 1)},
        "known_finding_runs": len(known),
        "queries_not_asked_after_unanswered_ones": run.skipped,
        "tie_rule": {"pairs_with_tied_points": sum(1 for s in sets for e in s["cases"] if e["exp"]["tie"]),
                     "runs_with_a_pick_outside_the_rule": sum(run.offrule.values())},
        "nonempty_expected": sum(1 for s in sets for e in s["cases"] if e["exp"]["asc"]),
    }
    vlib.write_evidence(PROP, tier, seed, "model_checking", cov, time.time() - t0, nviol, [
        "TLC bounds as in the cfg files named under coverage.tlc",
        "single-node ts-server over HTTP; one database, shard group duration 1h, data sets with a 600s step span two shard groups",
        "new series are waited for once (show series) before judging, as the statement allows",
        "order of series, order of rows with equal time stamps and the pick among tied first/last/min/max points are left open "
        "by the language: any is accepted, but it must be the same under every configuration; where it is not (F-C08-9) every "
        "answer must be a pick the implementation's own tie rules predict (same time: greater value; same value: earliest time; "
        "open only for a boolean first() and for descending queries)",
        "fill(previous) follows the iteration order (InfluxDB 1.x), so a descending fill(previous) is not the reversed ascending one",
        "compaction is not forced (no control endpoint); layouts: memtable, one file, file + memtable, two files",
    ])
    return nviol


def run(tier, seed):
    t0 = time.time()
    vserver.build_server()
    sets, stats, finish = gen_cases(tier, seed, defer=True)
    vlib.log(f"[c08] {stats['data_sets']} data sets, {stats['pairs']} (data, query) pairs; generators {time.time() - t0:.1f}s")
    r = Run(tier, seed, sets, SERVER_CONFS)
    try:
        r.run()
    finally:
        finish()        # Mode A must have passed (vlib.Infra otherwise), whatever the replay found
    vlib.log(f"[c08] Mode A joined after {time.time() - t0:.1f}s")
    vlib.log(f"[c08] {r.nq} queries run; {len(r.results)} divergent runs; wall {time.time() - t0:.1f}s")
    nviol = report(r, sets, stats, tier, seed, t0)
    return 1 if nviol else 0


def replay(path, seed):
    obj = json.load(open(path))
    sets = [{"data": obj["data"], "cases": [obj["case"]], "src": "replay"}]
    seed = obj.get("seed", seed)
    r = Run("thorough", seed, sets, SERVER_CONFS)
    # same concretisation as in the original run
    r.concs = [Conc(obj.get("idx", 0), obj["data"], seed)]
    r.run()
    bad = [x for x in r.results if not x["known"] or x["known"] not in r.open]
    for x in r.results[:5]:
        vlib.log(f"  [{x['config']}] {x['query']}\n    {x['detail'][:600]} {x['known']}")
    if bad:
        print(f"VIOLATION property={PROP} replay={path}")
        return 1
    print("replay passes" + (" (known finding re-observed)" if r.results else ""))
    return 0


def selftest(seed):
    """every mutation seed of the specification must make TLC find a counterexample (the invariants are not vacuous)"""
    ok = True
    for dev, inv in [(d, "Laws") for d in DEVS_LAWS] + [(d, "ChunkIndependence") for d in DEVS_CHUNK]:
        r = vlib.run_tlc("QuerySemMC", f"QuerySem.dev.{dev}.cfg", workers=8, timeout=900)
        caught = r["violated"] == inv
        ok = ok and caught
        print(f"Dev={{{dev}}}: {'counterexample to ' + inv if caught else 'NOT CAUGHT: ' + str(r['violated']) + ' ' + str(r['error'])}"
              f" ({r['generated']} states, {r['wall_s']:.1f}s)")
    return 0 if ok else 1
