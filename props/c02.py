"""C02 — reads equal a last-write-wins replay of acknowledged writes, in any layout.
Mode A: TLC exhaustively checks specs/Layout.tla (ReadEqLWW, OrderedDisjoint, ...).
Mode B: TLC-generated behaviours (exhaustive small BFS paths + seeded simulation) are replayed into a
real shard; after every action the real reads must equal the specification's expected contents."""
import json, os, time
import vlib

PROP = "C02"
TOLERATED = []   # cases whose harness process died with the signature of open finding F-C04-1 (c)


def gen_behaviours(tier, seed):
    stats = {}
    # Mode A: exhaustive design check
    cfg = "Layout.exh.quick.cfg" if tier == "quick" else "Layout.exh.thorough.cfg"
    r = vlib.run_tlc("LayoutMC", cfg, timeout=3000, coverage=(tier == "thorough"))
    vlib.tlc_must_pass(r, cfg)
    stats["exh"] = {k: r[k] for k in ("generated", "distinct", "depth", "wall_s")}
    stats["exh"]["cfg"] = cfg
    # Mode B generators
    behaviours = []
    r2 = vlib.run_tlc("LayoutMC", "Layout.bfs.export.cfg", workers=4, timeout=900)
    vlib.tlc_must_pass(r2, "Layout.bfs.export.cfg")
    bfs = r2["traces"]
    if tier == "quick" and len(bfs) > 2000:      # seeded sample in the quick tier, all of them in thorough
        import random
        rnd = random.Random(seed)
        bfs = rnd.sample(bfs, 2000)
    behaviours += bfs
    stats["bfs_export"] = {"generated": r2["generated"], "distinct": r2["distinct"], "traces": len(r2["traces"]), "replayed": len(bfs)}
    nsim = 150 if tier == "quick" else 3000
    r3 = vlib.run_tlc("LayoutMC", "Layout.sim.cfg", simulate=nsim, depth=18, seed=seed, timeout=3000)
    vlib.tlc_must_pass(r3, "Layout.sim.cfg")
    behaviours += r3["traces"]
    stats["sim"] = {"generated": r3["generated"], "traces": len(r3["traces"]), "num": nsim}
    return behaviours, stats


def replay_cases(cases, seed):
    vh = vlib.build_vh()
    results, errs, tol = vlib.run_vh_parallel(vh, ["replay-layout"], cases, tolerate=vlib.f_c04_1_death)
    TOLERATED.extend(tol)
    if errs:
        raise vlib.Infra(f"harness process failed: {errs[0]}")
    if len(results) + len(tol) != len(cases):
        raise vlib.Infra(f"harness returned {len(results)} results for {len(cases)} cases")
    return results


def run(tier, seed):
    t0 = time.time()
    behaviours, stats = gen_behaviours(tier, seed)
    cases = [{"id": i, "seed": seed, "hist": h} for i, h in enumerate(behaviours)]
    results = replay_cases(cases, seed)
    infra = [r for r in results if r.get("infra")]
    if infra:
        raise vlib.Infra(f"harness infra error: {infra[0]}")
    if TOLERATED:
        print(f"KNOWN-FINDING: property={PROP} F-C04-1 the store process died {len(TOLERATED)} times at close with an unbalanced tsspFile reference count "
              f"(negative WaitGroup counter / close blocked in wg.Wait); those cases are not judged")
    bad = [r for r in results if not r["ok"]]
    known = [r for r in results if r.get("known")]
    open_ids = {f["id"] for f in vlib.load_known("C01")} | {f["id"] for f in vlib.load_known(PROP)}
    for r in known:
        if r["known"] not in open_ids:   # attributed to something that is not a listed open finding
            r["ok"] = False
            bad.append(r)
    for kid in sorted({r["known"] for r in known if r["known"] in open_ids}):
        n = sum(1 for r in known if r["known"] == kid)
        ex = next(r for r in known if r["known"] == kid)
        print(f"KNOWN-FINDING: property={PROP} {kid} re-observed in {n} behaviours, e.g. {ex['detail'][:300]}")
    kre = sum(r.get("known_read_errors", 0) for r in results)
    if kre and "F-C04-1" in {f["id"] for f in vlib.load_known("C04")}:
        print(f"KNOWN-FINDING: property={PROP} F-C04-1 query failed {kre} times with the recovered panic 'slice bounds out of range [4294967288:0]' (retried)")
    viol = 0
    byid = {c["id"]: c for c in cases}
    for r in bad[:5]:
        path = vlib.save_replay(PROP, {"case": byid[r["id"]], "result": r})
        print(f"VIOLATION property={PROP} replay={path}")
        vlib.log(r["detail"])
        viol += 1
    distinct = len({json.dumps(h, sort_keys=True) for h in behaviours})
    cov = {
        "states": stats["exh"]["distinct"], "transitions": stats["exh"]["generated"],
        "traces_validated_against_impl": len(results),
        "samples": [behaviours[0], behaviours[-1]] if behaviours else [],
        "exhaustive": True,
        "evaluations": len(results), "distinct_nontrivial": distinct,
        "rule": "behaviours of Layout.tla (all BFS paths of the small export config + seeded simulation); "
                "distinct = distinct action sequences; every one has >= 1 write and is replayed with reads after each action",
        "tlc": stats,
        "reads_compared": sum(r["reads"] for r in results),
        "known_finding_behaviours": len(known),
        "shape_drift_steps": sum(r["drift"] for r in results),
        "steps_replayed": sum(len(h) for h in behaviours),
    }
    vlib.write_evidence(PROP, tier, seed, "model_checking", cov, time.time() - t0, len(bad), [
        "TLC bounds as in the cfg files named under coverage.tlc",
        "engine driven in process through exported API; one shard, tsstore engine",
        "index made searchable (DebugFlush) after each new series, as the property allows",
    ])
    return 1 if bad else 0


def replay(path, seed):
    obj = json.load(open(path))
    res = replay_cases([obj["case"]], seed)
    r = res[0]
    if not r["ok"]:
        print(f"VIOLATION property={PROP} replay={path}")
        vlib.log(r["detail"])
        return 1
    print("replay passes")
    return 0
