"""C14 - retention removes only data that has expired.

Mode A  TLC checks specs/Retention.tla exhaustively: the design (Dev = {}) against every invariant and action
        property, the code as implemented (two named deviations) against the decision-reading invariants, the
        liveness property ExpiredEventuallyGone under fairness of the service loop, and - vacuity guard, on every
        run - one counterexample per deviation name.
Mode B  TLC-generated behaviours (all BFS paths of small universes + seeded simulation, generated from the
        as-implemented model, whose steps carry the name of the deviation that fired) are replayed by
        `vh replay-retention` into the real retention service, engine, catalogue and points writer; the real state
        is compared with the specification after every step. The pure form (`vh retention-pure`) evaluates
        Engine.ExpiredShards against the specification's RawExpired. The black-box layer (tools/vserver.py) replays
        quiescent behaviours over HTTP against a single-node ts-server with a 1 s retention check interval.
Verdicts come from the real code only."""
import concurrent.futures as cf
import json, os, random, re, shutil, time
import vlib

PROP = "C14"
MC = "RetentionMC"
ASIMPL = '{"decision_not_revalidated", "prune_after_failed_delete"}'
FINDING_OF = {"decision_not_revalidated": "F-C14-1", "prune_after_failed_delete": "F-C14-2"}

# deviation set -> (base cfg, INVARIANTS | PROPERTIES, name that must be reported violated)
DEVS = [
    ('{"expire_le", "decision_not_revalidated"}', "Retention.exh.quick.cfg", "I", "OnlyExpiredAtDecision"),
    ('{"expire_from_start"}', "Retention.exh.quick.cfg", "I", "OnlyExpiredAtDecision"),
    ('{"unlimited_is_zero"}', "Retention.exh.quick.cfg", "I", "UnlimitedNeverDeleted"),
    ('{"refresh_skips_lazy"}', "Retention.exh.quick.cfg", "I", "RaiseBeforeDecisionKeeps"),
    ('{"write_no_reject"}', "Retention.exh.quick.cfg", "I", "AckedInWindow"),
    ('{"write_reject_le"}', "Retention.exh.quick.cfg", "I", "RejectedOutOfWindow"),
    ('{"decision_not_revalidated"}', "Retention.exh.quick.cfg", "I", "RaiseBeforeEffectKeeps"),
    ('{"decision_not_revalidated"}', "Retention.exh.quick.cfg", "I", "InWindowQueryable"),
    ('{"decision_not_revalidated"}', "Retention.exh.quick.cfg", "P", "OnlyExpiredDeleted"),
    ('{"decision_not_revalidated"}', "Retention.exh.quick.cfg", "P", "UnlimitedNeverMarks"),
    ('{"prune_after_failed_delete"}', "Retention.exh.quick.cfg", "I", "NoOrphanStorage"),
    ('{"prune_after_failed_delete"}', "Retention.live.quick.cfg", "P", "ExpiredEventuallyGone"),
    ('{"prune_any_marked"}', "Retention.exh2.quick.cfg", "I", "NoOrphanStorage"),
    ('{"absent_not_pruned"}', "Retention.live.quick.cfg", "P", "ExpiredEventuallyGone"),
]


def open_ids():
    """ids of the open findings of this property; C14_ASSUME_FIXED=F-C14-2[,..] treats findings as fixed (used to try a
    candidate fix with tools/mutant.sh before known_findings.json is updated)"""
    skip = {x.strip() for x in os.environ.get("C14_ASSUME_FIXED", "").split(",") if x.strip()}
    return {f["id"] for f in vlib.load_known(PROP)} - skip


def asimpl():
    """the deviations the code is believed to have = those whose finding is listed as open; when a finding is fixed
    (status changed in known_findings.json) the behaviours are generated from the model without its deviation"""
    devs = sorted(d for d, fid in FINDING_OF.items() if fid in open_ids())
    return "{" + ", ".join('"%s"' % d for d in devs) + "}"


def with_asimpl(tmp, cfg):
    """copy of a cfg file whose Dev line is the current as-implemented set"""
    txt = open(os.path.join(vlib.SPECS, "cfg", cfg)).read()
    txt, n = re.subn(r"(?m)^(\s*Dev\s*=\s*)\{.*\}\s*$", lambda m: m.group(1) + asimpl(), txt)
    if n != 1:
        raise vlib.Infra(f"{cfg}: no Dev line")
    p = os.path.join(tmp, cfg)
    open(p, "w").write(txt)
    return p


def _heap():
    os.environ.setdefault("JAVA_TOOL_OPTIONS", "-Xmx4g")


def _cfg_consts(cfg):
    txt = open(os.path.join(vlib.SPECS, "cfg", cfg)).read()
    out = {}
    for k in ("SPG", "NSlots"):
        m = re.search(r"^\s*%s\s*=\s*(\d+)" % k, txt, re.M)
        out[k] = int(m.group(1))
    out["Lazy"] = re.search(r"^\s*Lazy\s*=\s*(TRUE|FALSE)", txt, re.M).group(1) == "TRUE"
    return out


def _violated(r):
    if r["violated"]:
        return r["violated"]
    m = re.search(r"Temporal property (\S+) was violated|Temporal properties were violated", r["out"])
    if m:
        return m.group(1) or "temporal"
    return None


def _dev_cfg(tmp, i, dev, base, kind, name):
    txt = open(os.path.join(vlib.SPECS, "cfg", base)).read().replace("Dev = {}", "Dev = " + dev)
    lines, skip = [], False
    for l in txt.splitlines():
        if l.startswith("INVARIANTS") or l.startswith("PROPERTIES"):
            skip = True
            continue
        if skip and l.startswith(" "):
            continue
        skip = False
        lines.append(l)
    lines.insert(len(lines) - 1, ("INVARIANTS " if kind == "I" else "PROPERTIES ") + name)
    p = os.path.join(tmp, f"dev{i}.cfg")
    open(p, "w").write("\n".join(lines) + "\n")
    return p


def mode_a(tier):
    """exhaustive runs of the design and of the as-implemented model + one counterexample per deviation"""
    _heap()
    t = "quick" if tier == "quick" else "thorough"
    design = [f"Retention.exh.{t}.cfg", f"Retention.exh2.{t}.cfg", f"Retention.asimpl.{t}.cfg", f"Retention.live.{t}.cfg"]
    tmp = vlib.scratch("c14cfg")
    stats = {"design": {}, "deviations_caught": {}}
    try:
        jobs = [("design", with_asimpl(tmp, c) if "asimpl" in c else c, c) for c in design]
        for i, (dev, base, kind, name) in enumerate(DEVS):
            jobs.append(("dev", _dev_cfg(tmp, i, dev, base, kind, name), (dev, name)))
        conc = 5 if tier == "quick" else 3
        w = 3 if tier == "quick" else max(2, vlib.NCPU // 4)

        def one(job):
            kind, cfg, tag = job
            return job, vlib.run_tlc(MC, cfg, workers=w, timeout=600 if tier == "quick" else 1700)

        with cf.ThreadPoolExecutor(conc) as ex:
            for (kind, cfgp, tag), r in ex.map(one, jobs):
                cfg = tag
                if kind == "design":
                    if _violated(r):
                        raise vlib.Infra(f"TLC reports {_violated(r)} violated on {cfg}: the specification is wrong\n" + r["out"][-3000:])
                    vlib.tlc_must_pass(r, cfg)
                    stats["design"][cfg] = {k: r[k] for k in ("generated", "distinct", "depth")}
                    stats["design"][cfg]["wall_s"] = round(r["wall_s"], 1)
                else:
                    dev, name = tag
                    v = _violated(r)
                    if r.get("timeout") or v != name:
                        raise vlib.Infra(f"deviation {dev} should violate {name} in Retention.tla; TLC says {v} / {r['error']}\n" + r["out"][-1500:])
                    stats["deviations_caught"].setdefault(dev, []).append(name)
    finally:
        shutil.rmtree(tmp, ignore_errors=True)
    return stats


ACTIONS = ["Tick", "AlterDuration", "Write", "Query", "Restart", "LoopRefresh", "LoopExpireCheck", "LoopMarkDelete", "LoopDeleteShard",
           "LoopDeleteShardFail", "LoopPrune", "LoopEnd"]


def vacuity_guard(cases):
    """every action of the specification (and both outcomes of writes and ALTERs, both kinds of expiry check, a fired
    step of every open finding's deviation) must occur in the behaviours that are replayed (Next is one conjunction with
    the ghost update, so TLC's per-action coverage cannot tell the actions apart; the behaviours can)"""
    seen = set()
    for c in cases:
        for s in c["hist"]:
            seen.add(s["a"])
            if s["a"] in ("Write", "AlterDuration"):
                seen.add(s["a"] + ":" + s["res"]["r"])
            if s["a"] == "LoopExpireCheck":
                seen.add("LoopExpireCheck:" + ("some" if s["res"]["expired"] else "none"))
            if s["a"] == "LoopDeleteShard":
                seen.add("LoopDeleteShard:" + s["res"]["r"])
            if s["res"].get("fired"):
                seen.add("fired:" + s["res"]["fired"])
            for sh in s["exp"]["shards"]:
                seen.add("eng:" + sh["eng"])
    need = set(ACTIONS) | {"Write:accepted", "Write:rejected", "AlterDuration:ok", "AlterDuration:rejected", "LoopExpireCheck:some",
                           "LoopExpireCheck:none", "LoopDeleteShard:deleted", "LoopDeleteShard:notfound", "eng:open", "eng:lazy",
                           "eng:absent", "eng:deleted"}
    for d, fid in FINDING_OF.items():
        if fid in open_ids():
            need.add("fired:" + d)
    if "F-C14-2" not in open_ids():
        pass
    else:
        need.add("eng:orphan")
    missing = sorted(need - seen)
    if missing:
        raise vlib.Infra(f"vacuous coverage: the replayed behaviours never show {missing}")


# ---------------------------------------------------------------------------------------------------
# Mode B generators

def gen_behaviours(tier, seed):
    _heap()
    rnd = random.Random(seed)
    q = tier == "quick"
    plan = [  # cfg, simulate, depth, sample size
        ("Retention.bfs.export.cfg" if q else "Retention.bfs.export.thorough.cfg", None, None, 1200 if q else 12000),
        ("Retention.bfs.fault.cfg", None, None, 500 if q else 3723),
        ("Retention.bfs.tick.cfg", None, None, 40 if q else 200),
        ("Retention.sim.cfg", 300 if q else 3000, 26, None),
        ("Retention.sim.tick.cfg", 40 if q else 300, 26, 24 if q else 160),
    ]
    stats, cases = {"as_implemented": asimpl()}, []
    tmp = vlib.scratch("c14gen")

    def one(p):
        cfg, sim, depth, _ = p
        cp = with_asimpl(tmp, cfg)
        if sim:
            return p, vlib.run_tlc(MC, cp, simulate=sim, depth=depth, seed=seed, timeout=1500)
        return p, vlib.run_tlc(MC, cp, workers=4, timeout=1500)

    with cf.ThreadPoolExecutor(3) as ex:
        runs = list(ex.map(one, plan))
    shutil.rmtree(tmp, ignore_errors=True)
    if True:
        for (cfg, sim, depth, n), r in runs:
            if r.get("timeout") or r["violated"] or r["error"] or not r["finished"]:
                raise vlib.Infra(f"TLC failed on {cfg}: {r['violated']} {r['error']}\n" + r["out"][-2000:])
            tr = r["traces"]
            if "tick" in cfg:
                tr = [h for h in tr if sum(1 for s in h if s["a"] == "Tick") == 1] if "sim" in cfg else tr
            if n is None or len(tr) <= n:
                sel = tr
            else:
                # the behaviours in which a deviation fires or an orphan directory appears first (at most a quarter
                # of the sample), the rest drawn with the seed
                hot = [h for h in tr if any(s["res"].get("fired") for s in h) or any(x["eng"] == "orphan" for x in h[-1]["exp"]["shards"])]
                rnd.shuffle(hot)
                hot = hot[:n // 4]
                hk = {id(h) for h in hot}
                cold = [h for h in tr if id(h) not in hk]
                sel = hot + rnd.sample(cold, n - len(hot))
            k = _cfg_consts(cfg)
            for h in sel:
                cases.append({"seed": seed, "hist": h, "spg": k["SPG"], "lazy": k["Lazy"], "src": cfg})
            stats[cfg] = {"generated": r["generated"], "distinct": r["distinct"], "traces": len(r["traces"]), "replayed": len(sel)}
    for i, c in enumerate(cases):
        c["id"] = i
    return cases, stats


def replay_cases(cases):
    vh = vlib.build_vh()
    # behaviours with a Tick wait ~10 s of wall clock each: spread them evenly
    ticks = [c for c in cases if any(s["a"] == "Tick" for s in c["hist"])]
    rest = [c for c in cases if not any(s["a"] == "Tick" for s in c["hist"])]
    nproc = min(vlib.NCPU, 16)
    order = ticks + rest
    results, errs = vlib.run_vh_parallel(vh, ["replay-retention"], order, nproc=nproc, timeout=2400)
    if errs:
        raise vlib.Infra(f"harness process failed: {errs[0]}")
    if len(results) != len(cases):
        raise vlib.Infra(f"harness returned {len(results)} results for {len(cases)} cases")
    # cases whose wall-clock window was left (loaded machine) are not judged: one more attempt
    byid = {c["id"]: c for c in cases}
    for attempt in range(3):
        late = [r["id"] for r in results if r.get("late")]
        if not late:
            break
        vlib.log(f"[c14] {len(late)} behaviours left their wall-clock window (loaded machine): replayed again")
        again, errs = vlib.run_vh_parallel(vh, ["replay-retention"], [byid[i] for i in late], nproc=min(4, len(late)), timeout=2400)
        if errs:
            raise vlib.Infra(f"harness process failed: {errs[0]}")
        ra = {r["id"]: r for r in again}
        results = [ra.get(r["id"], r) if r.get("late") else r for r in results]
    return results


def pure_cases(tier, seed):
    r = vlib.run_tlc("RetentionPure", "Retention.pure.cfg", workers=1, timeout=300)
    if r["error"] or not r["traces"]:
        raise vlib.Infra("TLC failed on Retention.pure.cfg: " + str(r["error"]) + r["out"][-1500:])
    cases = r["traces"][0]
    rnd = random.Random(seed)
    units = ["2s", "1h"] + rnd.sample(["3s", "5s", "17s", "1m", "90m", "24h", "168h", "720h", "8760h"], 2 if tier == "quick" else 9)
    if tier != "quick":
        units += [f"{rnd.randrange(2000, 7200000)}ms" for _ in range(6)]
    return [{"id": i, "seed": seed, "unit": u, "now": 10, "cases": cases} for i, u in enumerate(units)], len(cases)


def replay_pure(batches):
    vh = vlib.build_vh()
    results, errs = vlib.run_vh_parallel(vh, ["retention-pure"], batches, nproc=min(8, len(batches)), timeout=900)
    if errs:
        raise vlib.Infra(f"harness process failed: {errs[0]}")
    if len(results) != len(batches):
        raise vlib.Infra(f"pure harness returned {len(results)} results for {len(batches)} batches")
    return results


# ---------------------------------------------------------------------------------------------------

def short(h):
    ab = {"AlterDuration": "Alter", "LoopRefresh": "Refresh", "LoopExpireCheck": "Check", "LoopMarkDelete": "Mark", "LoopDeleteShard": "Delete",
          "LoopDeleteShardFail": "DeleteFails", "LoopPrune": "Prune", "LoopEnd": "End"}
    out = []
    for s in h:
        a = ab.get(s["a"], s["a"])
        if s["a"] == "AlterDuration":
            a += f"({s['args']['d']}{'' if s['res']['r'] == 'ok' else ' refused'})"
        elif s["a"] == "Write":
            a += f"(slot {s['args']['sl']}.{s['args']['sub']} shard {s['args']['k']}{'' if s['res']['r'] == 'accepted' else ' refused'})"
        elif "sid" in s["args"]:
            a += f"({s['args']['sid']})"
        if s["res"].get("fired"):
            a += "*"
        out.append(a)
    return " ".join(out)


KNOWN_WHAT = {
    "F-C14-1": "ALTER RETENTION POLICY raising the duration (or making it unlimited) after the service read the policy but before it "
               "marked/deleted the shard is ignored for that iteration: a shard that is not expired under the policy in force is deleted",
    "F-C14-2": "after a failed Engine.DeleteShard the service still prunes the catalogue entry: the catalogue forgets a shard whose storage "
               "exists, and after a store restart its directory is never loaded nor removed",
}


def run(tier, seed):
    t0 = time.time()
    import c14_blackbox
    bbex = cf.ThreadPoolExecutor(1)
    bbf = bbex.submit(c14_blackbox.run, tier, seed)      # the HTTP layer mostly waits: it runs beside the rest
    try:
        return _run(tier, seed, t0, bbf)
    finally:
        bbex.shutdown(wait=True)


def _run(tier, seed, t0, bbf):
    # Mode A (exhaustive runs + one counterexample per deviation) runs beside the generation and replay of behaviours
    with cf.ThreadPoolExecutor(1) as ex:
        fa = ex.submit(mode_a, tier)
        try:
            cases, gstats = gen_behaviours(tier, seed)
            vlib.log(f"[c14] {len(cases)} behaviours generated at {time.time()-t0:.0f}s")
            vacuity_guard(cases)
            results = replay_cases(cases)
            vlib.log(f"[c14] behaviours replayed at {time.time()-t0:.0f}s")
        finally:
            a = fa.result()      # a specification that fails Mode A is exit 2 whatever the replays say
            vlib.log(f"[c14] mode A done at {time.time()-t0:.0f}s")
    # results that are not verdicts (set-up failure, wall clock left the planned window on a loaded machine)
    # (a service step that does not return within the harness's 100 s watchdog is a dead machine or a dead lock in the
    # harness's gate, not a verdict: exit 2)
    infra = [r for r in results if r.get("infra") or r.get("late") or r.get("hang")]
    results = [r for r in results if not (r.get("infra") or r.get("late") or r.get("hang"))]
    batches, npure = pure_cases(tier, seed)
    pres = replay_pure(batches)
    infra += [r for r in pres if r.get("infra")]
    pres = [r for r in pres if not r.get("infra")]
    bb_err = None
    try:
        bb = bbf.result()
    except Exception as ex:       # an infrastructure failure of the HTTP layer must not hide a divergence found in process
        bb_err = ex if isinstance(ex, vlib.Infra) else vlib.Infra(f"black-box layer: {type(ex).__name__}: {ex}")
        bb = {"behaviours": 0, "steps": 0, "servers": 0, "wall_s": 0, "skipped": "infra: " + str(ex)[:300], "known": {}, "violations": []}
    vlib.log(f"[c14] black-box layer done at {time.time()-t0:.0f}s ({bb['wall_s']}s)")

    byid = {c["id"]: c for c in cases}
    opn = open_ids()
    bad = [r for r in results if not r["ok"]]
    seen = {}
    for r in results:
        for k in r.get("known") or []:
            if k not in opn:   # matched a deviation that is not a listed open finding
                if r["ok"]:
                    r["ok"] = False
                    r["detail"] = f"the real code follows deviation {k} of the specification, which is not a listed open finding: " + short(byid[r["id"]]["hist"])
                    bad.append(r)
            else:
                seen.setdefault(k, []).append(r["id"])
    for k, ids in list(bb["known"].items()):
        if k in opn:
            seen.setdefault(k, [])
    for k in sorted(seen):
        ex = short(byid[seen[k][0]]["hist"]) if seen[k] else "black-box layer"
        print(f"KNOWN-FINDING: property={PROP} {k} {KNOWN_WHAT.get(k, '')} (re-observed in {len(seen[k])} behaviours"
              f"{' and over HTTP' if bb['known'].get(k) else ''}, e.g. {ex})")
    if tier == "thorough":
        for k in sorted(opn - set(seen)):
            raise vlib.Infra(f"listed open finding {k} was not re-observed: the list must not rot")
    viol = 0
    for r in bad[:5]:
        path = vlib.save_replay(PROP, {"kind": "behaviour", "case": byid[r["id"]], "result": r})
        print(f"VIOLATION property={PROP} replay={path}")
        vlib.log(r.get("detail", ""))
        viol += 1
    pbad = [r for r in pres if not r["ok"]]
    for r in pbad[:3]:
        b = next(x for x in batches if x["id"] == r["id"])
        path = vlib.save_replay(PROP, {"kind": "pure", "batch": b, "result": r})
        print(f"VIOLATION property={PROP} replay={path}")
        vlib.log(r.get("detail", ""))
        viol += 1
    for v in bb["violations"][:3]:
        path = vlib.save_replay(PROP, {"kind": "blackbox", "case": v["case"], "result": v["detail"]})
        print(f"VIOLATION property={PROP} replay={path}")
        vlib.log(v["detail"])
        viol += 1
    nbad = len(bad) + len(pbad) + len(bb["violations"])

    exh = a["design"]
    main = [v for k, v in exh.items() if ".exh." in k or ".exh2." in k]
    distinct = len({json.dumps(c["hist"], sort_keys=True) for c in cases})
    nontrivial = sum(1 for c in cases if any(s["a"] in ("LoopMarkDelete", "LoopDeleteShard") for s in c["hist"]))
    cov = {
        "states": sum(v["distinct"] for v in main), "transitions": sum(v["generated"] for v in main),
        "traces_validated_against_impl": len(results) + bb["behaviours"],
        "samples": [short(cases[0]["hist"]), short(cases[-1]["hist"])] + ([short(byid[seen[k][0]]["hist"]) for k in sorted(seen) if seen[k]]),
        "exhaustive": True,
        "evaluations": len(results) + sum(r["evals"] for r in pres) + bb["behaviours"],
        "distinct_nontrivial": nontrivial,
        "rule": "a behaviour = one action sequence of Retention.tla replayed step by step into the real service/engine/catalogue/writer with "
                "comparison after every step; distinct_nontrivial = behaviours in which the service marks or deletes at least one shard; "
                "evaluations also count the pure-form evaluations of Engine.ExpiredShards and the black-box behaviours",
        "tlc": {"mode_a": a, "generators": gstats},
        "distinct_behaviours": distinct,
        "steps_replayed": sum(r["steps"] for r in results),
        "shard_reads_compared": sum(r.get("reads", 0) for r in results),
        "placement_classes": {k: sum(1 for r in results if r.get("class") == k) for k in ("mid", "after", "before", "tick")},
        "pure": {"cases_per_unit": npure, "units": [b["unit"] for b in batches], "evaluations": sum(r["evals"] for r in pres)},
        "blackbox": {k: bb[k] for k in ("behaviours", "steps", "servers", "wall_s", "skipped")},
        "known_finding_behaviours": {k: len(v) for k, v in seen.items()},
    }
    vlib.write_evidence(PROP, tier, seed, "model_checking", cov, time.time() - t0, nbad, [
        "TLC bounds as in the cfg files named under coverage.tlc",
        "one store node, one database, one retention policy; shard groups of 1 h .. 3 h; time-series engine; local storage product line "
        "(HandleLocalStorage), not the shared-storage one",
        "no clock hook: ticks are mapped onto the wall clock (far from, seconds after, 1.5-3 min before a boundary; a Tick is a real wait "
        "across one); the instant end + duration = now is out of reach",
        "the service's MetaClient is an adapter applying the commands with the functions ts-meta's state machine uses; Engine.DeleteShard "
        "failures are injected at the adapter (errno.PtIsAlreadyMigrating)",
        "behaviours are generated from the as-implemented model (deviations decision_not_revalidated, prune_after_failed_delete); a step in "
        "which a deviation fires and the real code matches it exactly is attributed to the open finding of that name",
    ])
    if nbad:
        return 1
    if infra:
        raise vlib.Infra(f"{len(infra)} cases could not be judged, e.g. {infra[0]}")
    if bb_err:
        raise bb_err
    return 0


def replay(path, seed):
    obj = json.load(open(path))
    kind = obj.get("kind", "behaviour")
    if kind == "behaviour":
        r = replay_cases([obj["case"]])[0]
    elif kind == "pure":
        r = replay_pure([obj["batch"]])[0]
    else:
        import c14_blackbox
        out = c14_blackbox.replay(obj["case"], seed)
        r = {"ok": not out, "detail": out}
    if r.get("infra") or r.get("late"):
        raise vlib.Infra(str(r))
    if not r["ok"]:
        print(f"VIOLATION property={PROP} replay={path}")
        vlib.log(r.get("detail", ""))
        return 1
    print("replay passes" + (f" (known findings matched: {r['known']})" if r.get("known") else ""))
    return 0
