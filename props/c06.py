"""C06 - what is written through the line protocol is exactly what queries return.
Mode A: TLC exhaustively checks specs/LineProtocol.tla (character-class automaton of the line protocol:
        AcceptHasField, NoUnescapedSeparator, Conservation, TagsComplete, ValueFaithful, RejectAbsorbing, ...).
Mode B: TLC enumerates every class sequence up to a bound (+ seeded simulation of longer lines); every
        sequence is concretised (several texts per class, from VERIF_SEED), posted to /write of ONE real
        ts-server into its own fresh measurement and read back with select * (epoch=ns): the stored point must
        be exactly the decoded point of the specification, or the line must be rejected with 4xx and store
        nothing. Batches mix valid and invalid lines.
Divergences are attributed to an open finding of known_findings.json only if the real result equals the
prediction of the finding's deviation model (the as-implemented automata of the spec + the arithmetic below).
The deviation models of REPAIRED defects (FIXED_OF) are still evaluated, on top of the as-implemented automaton:
a divergence that equals one of them (and no as-implemented prediction) is a VIOLATION naming the lost fix.
Schema layer (specs/LineSchema.tla, EXTENDS LineProtocol): a decoded line meets the schema its measurement already has.
TLC checks NoForeignValue, ValidFieldsKept, LastWriteWins, SchemaFromKept, ReplyFaithful, SchemaMonotone, ... exhaustively
and exports SEQUENCES of write requests for one measurement (first line fixes types; later lines mix same-type, new and
conflicting fields, names used as tag and as field, lines in a later shard group, the same (series, time) again, batches);
each sequence is concretised (own measurement, key / tag / value texts from the seed), posted request by request to the
same ts-server and read back: every reply (204 | 400 partial write, dropped=N) and every stored cell must equal the
specification; the as-implemented state of the spec (open findings F-C06-9, F-C06-10) and F-C06-1 are the only
attributions."""
import concurrent.futures as cf
import json, math, os, random, re, struct, sys, threading, time
import vlib, vserver

PROP = "C06"
CHARS = {"P", "U", "C", "S", "E", "Q", "B"}
ONE = {"C": ",", "S": " ", "E": "=", "Q": '"', "B": "\\"}
MULT = {"": 1, "ns": 1, "n": 1, "u": 10**3, "us": 10**3, "ms": 10**6, "s": 10**9, "m": 60 * 10**9, "h": 3600 * 10**9}
WEEK = 7 * 86400 * 10**9
I64MAX, I64MIN = 2**63 - 1, -2**63
DAY = 86400 * 10**9
# shard groups last a week and start on Mondays (time.Truncate counts from the year 1): 1969-12-29, 1970-01-05, ...
S_EARLY = (1, 3 * DAY)               # timestamps of the schema cases: inside the first shard group
S_LATE = (5 * DAY, 6 * DAY)          # ... and inside the next one (SLateTimes of LineSchema.tla)
FINDING_OF = {  # as-implemented deviation of the spec (constant ImplDev of the cfg files) -> OPEN finding id
    "int_via_float64": "F-C06-1", "batch_last_line_decides": "F-C06-6",
    "empty_tag_skipped": "F-C06-7", "tagval_equals_literal": "F-C06-7", "quote_scan_key": "F-C06-8",
}
FIXED_OF = {    # deviation model of a repaired defect (constant FixedDev of the cfg files) -> (finding id, fix commit)
    "float_fastfloat": ("F-C06-2", "c8aa879"), "ts_mult_wraps": ("F-C06-3", "11669c8"),
    "fsuffix_unvalidated": ("F-C06-4", "10608b5"), "quote_scan": ("F-C06-5", "3a54b7c"),
}
# schema layer (LineSchema.tla): as-implemented deviations of the prediction state (constant SImplDev) -> OPEN finding id,
# and deviation models of repaired defects -> (finding id, fix commit)
S_FINDING_OF = {"tag_shadowed_by_field": "F-C06-9", "stale_endtime_conflict_drops_line": "F-C06-10"}
S_FIXED_OF = {}
S_MARKER = "partial_pool_applied"
TYPE_NAME = {"int": "integer", "float": "float", "string": "string", "bool": "boolean"}
# prediction automata exported by TLC: {x} for x in IMPL_DEVS, IMPL_DEVS itself (the code as it is), and
# IMPL_DEVS + {y} for y in FIXED_OF (the code as it would be again without the fix of y).
# batch_last_line_decides is the batch-level member of the as-implemented set (judge_batch, BatchStatus of the spec)
IMPL_DEVS = ["empty_tag_skipped", "tagval_equals_literal", "quote_scan_key", "int_via_float64"]

# ------------------------------------------------------------------------------------------------
# deviation-model arithmetic


def go_int64_of_float(f):
    """int64(f) as the amd64 code Go emits computes it (CVTTSD2SQ): out of range -> MinInt64."""
    if f != f or f >= 2.0**63 or f < -2.0**63:
        return I64MIN
    return int(f)


def int_via_float64(v):
    """F-C06-1: influx.Field.NumValue is a float64; record.AppendFieldsToRecord converts back with int64()."""
    return go_int64_of_float(float(v))


_POW10 = [float("1e%d" % i) for i in range(0, 17)]      # fastfloat.float64pow10


_POW10TAB = [float("1e%d" % i) for i in range(32)]
_POW10POS32 = [float("1e%d" % (32 * i)) for i in range(10)]
_POW10NEG32 = [float("1e-%d" % (32 * i)) for i in range(11)]


def _pow10(e):
    """Go's math.Pow10: a product / quotient of two table entries (not always the correctly rounded power)"""
    if 0 <= e <= 308:
        return _POW10POS32[e // 32] * _POW10TAB[e % 32]
    if -323 <= e <= 0:
        return _POW10NEG32[(-e) // 32] / _POW10TAB[(-e) % 32]
    return 0.0 if e < 0 else math.inf


def fastfloat_best_effort(s):
    """F-C06-2/4: port of github.com/valyala/fastjson@v1.6.4/fastfloat.ParseBestEffort."""
    if len(s) == 0:
        return 0.0
    i = 0
    minus = s[0] == "-"
    if minus:
        i += 1
        if i >= len(s):
            return 0.0
    if s[i] == "." and (i + 1 >= len(s) or not s[i + 1].isdigit() or not s[i + 1].isascii()):
        return 0.0
    d = 0
    j = i
    while i < len(s):
        if "0" <= s[i] <= "9":
            d = d * 10 + ord(s[i]) - 48
            i += 1
            if i > 18:
                try:
                    f = float(s.replace("_", "x"))
                except ValueError:
                    return 0.0
                return f
            continue
        break
    if i <= j and s[i] != ".":
        t = s[i:]
        if t.startswith("+"):
            t = t[1:]
        if t.lower() in ("inf", "infinity"):
            return -math.inf if minus else math.inf
        if t.lower() == "nan":
            return math.nan
        return 0.0
    f = float(d)
    if i >= len(s):
        return -f if minus else f
    if s[i] == ".":
        i += 1
        if i >= len(s):
            return f      # (sign dropped: as the Go code does)
        k = i
        while i < len(s):
            if "0" <= s[i] <= "9":
                d = d * 10 + ord(s[i]) - 48
                i += 1
                if i - j >= len(_POW10):
                    try:
                        return float(s.replace("_", "x"))
                    except ValueError:
                        return 0.0
                continue
            break
        if i < k:
            return 0.0
        f = float(d) / _POW10[i - k]
        if i >= len(s):
            return -f if minus else f
    if s[i] in "eE":
        i += 1
        if i >= len(s):
            return 0.0
        exp_minus = False
        if s[i] in "+-":
            exp_minus = s[i] == "-"
            i += 1
            if i >= len(s):
                return 0.0
        e = 0
        j2 = i
        while i < len(s):
            if "0" <= s[i] <= "9":
                e = e * 10 + ord(s[i]) - 48
                i += 1
                if e > 300:
                    try:
                        return float(s.replace("_", "x"))
                    except ValueError:
                        return 0.0
                continue
            break
        if i <= j2:
            return 0.0
        if exp_minus:
            e = -e
        f *= _pow10(e)
        if i >= len(s):
            return -f if minus else f
    return 0.0


def wrap64(v):
    v &= (1 << 64) - 1
    return v - (1 << 64) if v >= (1 << 63) else v


def fbits(f):
    return struct.pack(">d", f)


# ------------------------------------------------------------------------------------------------
# concretisation of classes

B36 = "0123456789abcdefghijklmnopqrstuvwxyz"
P_FIRST = "abcdghjklmopqrsvwxyzABCDGHJKLMOPQRSVWXYZ_"
P_LAST = "abcdeghjklmnopqrstvwxyzABCDEGHJKLMNOPQRSTVWXYZ0123456789_"
P_PUNCT = ".-:@!$%&()*+<>?^|~[]{}'`#/;"
U_ALPHA = "éüßñøæçÅλπΩжЯ日本語中文한국αβ😀🚀𝄞"


def b36(n):
    s = ""
    while True:
        s = B36[n % 36] + s
        n //= 36
        if n == 0:
            return s


def plain_text(rnd, cid, pos, in_mst):
    s = rnd.choice(P_FIRST) + b36(cid)           # lower case digits; the separator is never one
    p = rnd.choice(P_PUNCT) if rnd.random() < 0.6 else rnd.choice("GHJKLMNOPQRSTVWXYZ")
    if in_mst and p in "/;":              # influx/meta/validator.go: not allowed in measurement names
        p = "."
    if pos == 1 and p == "#" and False:
        p = "."
    return s + p + b36(pos) + rnd.choice(P_LAST)


def unicode_text(rnd, cid, pos):
    n = cid * 64 + pos
    s = ""
    while True:
        s = U_ALPHA[n % len(U_ALPHA)] + s
        n //= len(U_ALPHA)
        if n == 0:
            break
    return rnd.choice(U_ALPHA) + s


def _digits(rnd, n, first_nonzero=True):
    s = "".join(rnd.choice("0123456789") for _ in range(n))
    if first_nonzero and s[0] == "0":
        s = rnd.choice("123456789") + s[1:]
    return s


def value_text(rnd, tok):
    r = rnd.random()
    if tok == "I_SMALL":
        return rnd.choice([str(rnd.randint(1, 10**6)), "1", "007", str(rnd.randint(10**6, 2**53 - 1))]) + "i"
    if tok == "I_NEG":
        return "-" + rnd.choice([str(rnd.randint(1, 10**6)), "1", str(rnd.randint(10**6, 2**53 - 1))]) + "i"
    if tok == "I_ZERO":
        return rnd.choice(["0i", "-0i", "000i"])
    if tok == "I_2P53":
        return rnd.choice(["9007199254740992i", "-9007199254740992i"])
    if tok == "I_2P53P1":
        return rnd.choice(["9007199254740993i", "-9007199254740993i", "9007199254740995i"])
    if tok == "I_BIG":
        v = rnd.choice([rnd.randint(2**53 + 2, 2**63 - 1025), rnd.randint(2**63 - 1024, 2**63 - 2),
                        rnd.randint(2**53 + 2, 2**60) | 1, 2**62 + 1, 2**63 - 513, 2**63 - 512])
        return ("-" if r < 0.4 else "") + str(v) + "i"
    if tok == "I_MAX":
        return "9223372036854775807i"
    if tok == "I_MIN":
        return "-9223372036854775808i"
    if tok == "I_OVERFLOW":
        return rnd.choice(["9223372036854775808i", "18446744073709551616i", _digits(rnd, 25) + "i"])
    if tok == "I_UNDERFLOW":
        return rnd.choice(["-9223372036854775809i", "-" + _digits(rnd, 22) + "i"])
    if tok == "I_JUNK":
        return rnd.choice(["1.0i", "1e3i", "i", "--1i", "1_000i", "0x1Fi", "1.i", "-i", "12ai"])
    if tok == "F_SIMPLE":
        return "%d.%s" % (rnd.randint(0, 99999), _digits(rnd, rnd.randint(1, 8), False))
    if tok == "F_NEG":
        return "-%d.%s" % (rnd.randint(0, 999), _digits(rnd, rnd.randint(1, 6), False))
    if tok == "F_INT":
        return rnd.choice([str(rnd.randint(0, 10**6)), "0", "42", _digits(rnd, 15), "-" + _digits(rnd, 9), "0005"])
    if tok == "F_INTEGRAL":
        return rnd.choice(["2.0", "100.00", "-7.0", "%d.0" % rnd.randint(0, 10**9), "0.0"])
    if tok == "F_LEADDOT":
        return rnd.choice([".5", "-.25", "." + _digits(rnd, 5, False)])
    if tok == "F_TRAILDOT":
        return rnd.choice(["5.", "-12.", _digits(rnd, 4) + "."])
    if tok == "F_NEGZERO":
        return rnd.choice(["-0.0", "-0", "-0e0", "-0.000", "-.0"])
    if tok == "F_EXP":
        return "%s%d.%s%s%s%d" % ("-" if r < 0.2 else "", rnd.randint(0, 9), _digits(rnd, rnd.randint(1, 4), False),
                                 rnd.choice("eE"), rnd.choice(["", "+", "-", "-"]), rnd.choice([rnd.randint(0, 22), rnd.randint(0, 300)]))
    if tok == "F_BIGMANT":
        return rnd.choice(["0." + _digits(rnd, rnd.randint(17, 25), False), _digits(rnd, 17) + ".0", _digits(rnd, 30),
                           "%s.%s" % (_digits(rnd, 9), _digits(rnd, 9, False)), "9007199254740993.0", "1." + _digits(rnd, 18, False)])
    if tok == "F_EXTREME":
        return rnd.choice(["1.7976931348623157e308", "4.9e-324", "5e-324", "2.2250738585072014e-308", "1e-320", "1e308",
                           "2.2250738585072011e-308", "1e-400", "123456789e-330"])
    if tok == "F_PLUS":
        return rnd.choice(["+1.5", "+3", "+.5", "+1e2", "+%d.%s" % (rnd.randint(0, 99), _digits(rnd, 2, False))])
    if tok == "F_FSUFFIX":
        return rnd.choice(["1.5f", "38f", "-2.25f", "0f", "+7f", "1e2f", "%d.%sf" % (rnd.randint(0, 99), _digits(rnd, 3, False))])
    if tok == "F_OVERFLOW":
        return rnd.choice(["1e400", "-1e999", "1" + "0" * 400, "1.8e308"])
    if tok == "F_SPECIAL":
        return rnd.choice(["NaN", "nan", "infinity", "-nan", "Infinity", "-Infinity", "+NaN", "NAN"])
    if tok.startswith("B_") and tok != "B_BAD":
        return tok[2:]
    if tok == "B_BAD":
        return rnd.choice(["tRUE", "yes", "no", "tru", "TrUe", "fALSE", "tt", "on", "FALSe"])
    if tok == "U_SUFFIX":
        return rnd.choice(["1u", "42u", "0u", "18446744073709551615u"])
    if tok == "N_JUNK":
        return rnd.choice(["1.2.3", "1e", "0x10", "--1", "1-", "e5", "1e5.5", ".", "-", "+", "1e+", "..1", "1a", "١٢"])
    if tok == "N_JUNKF":
        return rnd.choice(["xyzf", "1.2.3f", "truef", "Inff", "nanf", "-f", "--1f", "1e5.5f", "-inff", "0x1f", "1ef", ".f",
                           "12abf", "Inf", "-Inf", "+Inf", "inf"])
    raise vlib.Infra("unknown value token " + tok)


def ts_text(rnd, tok, prec):
    mult = MULT[prec]
    if tok == "TS_NS":
        hi = max(1, (WEEK - 1) // mult - 1)
        return str(rnd.choice([1, rnd.randint(1, hi), rnd.randint(1, max(1, hi // 1000)), hi]))
    if tok == "TS_ZERO":
        return rnd.choice(["0", "00"])
    if tok == "TS_MAX":
        return "9223372036854775806"
    if tok == "TS_WRAP":          # t*mult overflows int64 and wraps to a small positive number
        k = rnd.choice([1, 1, 2, 3])
        t = -((-(1 << 64) * k) // mult)
        return str(t + rnd.randint(0, 3))
    if tok == "TS_OVER":
        return "9223372036854775807"
    if tok == "TS_OVERFLOW":
        return rnd.choice(["9223372036854775808", "99999999999999999999", _digits(rnd, 30)])
    if tok == "TS_NEG":
        return rnd.choice(["-5", "-1", "-%d" % rnd.randint(1, 10**9)])
    if tok == "TS_JUNK":
        return rnd.choice(["12a", "1.5", "1e3", "0x10", "2000-01-01T00:00:00Z", "1_000", "+5", "5i", "--5", "٣"])
    raise vlib.Infra("unknown ts token " + tok)


# ------------------------------------------------------------------------------------------------
# a TLC case -> concrete line + concrete expected points


def sub_rng(seed, cid):
    return random.Random((seed * 1000003 + cid) * 2654435761 % (1 << 61))


def concretise(case, cid, seed, rid=None):
    """case = {"line": [classes], "prec": p, "exp": outcome, "imp": [{"dev": [...], "out": outcome}]}
    cid is embedded in every plain / unicode text (fresh measurement); rid seeds the random choices"""
    rid = cid if rid is None else rid
    rnd = sub_rng(seed, rid)
    line = case["line"]
    prec = case.get("prec", "")
    mst_pos = set(case["exp"]["mst"])
    if not mst_pos:                      # still inside the measurement: everything before the first separator
        for i, c in enumerate(line, 1):
            if c in ("C", "S") and i > 1 and line[i - 2] != "B" and mst_pos:
                break
            mst_pos.add(i)
    texts = [None]
    for i, c in enumerate(line, 1):
        if c == "P":
            texts.append(plain_text(rnd, cid, i, i in mst_pos))
        elif c == "U":
            texts.append(unicode_text(rnd, cid, i))
        elif c in ONE:
            texts.append(ONE[c])
        elif c.startswith("TS_"):
            texts.append(ts_text(rnd, c, prec))
        else:
            texts.append(value_text(rnd, c))
    body = "".join(texts[1:])
    cc = {"id": cid, "rid": rid, "case": case, "texts": texts, "body": body, "prec": prec}
    cc["exp"] = concrete_outcome(case["exp"], texts, prec, line)
    cc["imp"] = [{"dev": x["dev"], "out": concrete_outcome(x["out"], texts, prec, line)} for x in case.get("imp", [])]
    return cc


def join(texts, idxs):
    return "".join(texts[i] for i in idxs)


def concrete_outcome(out, texts, prec, line):
    """abstract outcome -> concrete point: mst, tags {k: v}, fields {k: (type, python value)}, ts (int | "now")"""
    o = {"kind": out["kind"], "why": out.get("why", ""), "amb": list(out.get("amb", [])),
         "mst": join(texts, out["mst"]) if out["mst"] else None}
    if out["kind"] != "Accept":
        return o
    o["tags"] = {join(texts, t["k"]): join(texts, t["v"]) for t in out["tags"]}
    fields, dup = {}, set()
    used = set(out.get("used", []))           # deviations whose rule fired (structure), + those that changed a value
    for f in out["fields"]:
        k = join(texts, f["k"])
        if k in fields:
            dup.add(k)
        if f["t"] == "string":
            fields[k] = ("string", join(texts, f["s"]))
            continue
        pos = f["k"][-1] + 2                  # key, "=", value token
        if f["via"] == "ffjunk":              # everything up to position e, in front of the final f, unvalidated
            fields[k] = ("float", fastfloat_best_effort("".join(texts[pos:f["e"] + 1])[:-1]))
            used.add("fsuffix_unvalidated")
            continue
        if line[pos - 1] != f["tok"]:
            raise vlib.Infra("token position mismatch: %r %r" % (line, f))
        txt = texts[pos]
        if f["t"] == "int":
            v = int(txt[:-1])
            if f["via"] == "f64" and int_via_float64(v) != v:
                v = int_via_float64(v)
                used.add("int_via_float64")
            fields[k] = ("integer", v)
        elif f["t"] == "float":
            num = txt[:-1] if txt.endswith("f") else txt
            v = None if f["tok"] == "N_JUNKF" else float(num)
            if f["via"] == "ff" and (v is None or fbits(fastfloat_best_effort(num)) != fbits(v)):
                v = fastfloat_best_effort(num)
                used.add("fsuffix_unvalidated" if f["tok"] == "N_JUNKF" else "float_fastfloat")
            fields[k] = ("float", v)
        elif f["t"] == "bool":
            fields[k] = ("boolean", f["val"] == "true")
        else:
            raise vlib.Infra("unknown field type %r" % (f,))
    o["fields"] = fields
    o["dupfields"] = sorted(dup)
    tok = out["ts"]
    if tok == "TS_MISSING":
        o["ts"] = "now"
    else:
        pos = [i for i, c in enumerate(line, 1) if c == tok]
        if len(pos) != 1:
            raise vlib.Infra("timestamp token not unique: %r" % (line,))
        v = int(texts[pos[0]]) * MULT[prec]
        o["ts"] = wrap64(v) if out.get("tsvia") == "wrap" else v
        if out.get("tsvia") == "wrap":
            used.add("ts_mult_wraps")
    o["used"] = sorted(used)
    return o


# ------------------------------------------------------------------------------------------------
# the server side: one ts-server per run


class Num(str):
    """a JSON number token kept as its text"""


def parse_json_exact(body):
    return json.loads(body, parse_int=Num, parse_float=Num)


def qident(name):
    return '"' + name.replace("\\", "\\\\").replace('"', '\\"').replace("\n", "\\n") + '"'


class ServerDied(vlib.Infra):
    """the ts-server process is gone. replay_cases() posts every request (sequence) that was in flight to a fresh server:
    a request that kills that one too is a reproduced VIOLATION (a write must never take the server down), otherwise the
    death stays an infrastructure failure (exit 2)"""


class Session:
    NLANES = 3            # extra databases for measurement names that carry no case id (made of " = only)

    def __init__(self, threads=48):
        self.inflight, self.lock, self.died = {}, threading.Lock(), False
        self.srv = vserver.Server(name="c06", start=False)
        try:
            self.srv.start(wait=180)
        except BaseException:
            self.srv.stop()
            raise
        self.threads = threads
        self.dbs = ["c06"] + ["c06l%d" % i for i in range(1, self.NLANES + 1)]
        for db in self.dbs:
            st, r = self.srv.query("create database " + db, method="POST")
            if st != 200 or "error" in json.dumps(r):
                raise vlib.Infra("create database failed: %r" % (r,))
        # create the shard groups the cases fall into (meta cache lag gives 500 'shard group not found' at first)
        for db in self.dbs:
            for ln, pr in (("c06warm v=1i 1000", None), ("c06warm v=1i", None), ("c06warm v=1i 9223372036854775806", None),
                           ("c06warm v=1i %d" % S_LATE[0], None)):
                self.post_retry(db, ln, pr, tries=40)

    def stop(self):
        self.srv.stop()

    def _dead(self, what):
        self.died = True
        return ServerDied("ts-server died during %s:\n%s" % (what, self.srv.tail_log()))

    def post_retry(self, db, body, prec, tries=8, repro=None):
        """repro: the requests [(db, body, precision)] that lead to this one, itself included (default: itself)"""
        if self.died:
            raise ServerDied("ts-server died earlier")
        token = object()
        with self.lock:
            self.inflight[token] = list(repro) if repro else [(db, body, prec)]
        for k in range(tries):
            t0 = time.time_ns()
            try:
                st, txt = self.srv.write(db, body.encode("utf-8"), precision=prec or None)
            except Exception as ex:            # noqa
                if not self.srv.alive():
                    raise self._dead("a write")          # (the request stays registered as in flight)
                st, txt = 599, "client error: %r" % (ex,)
            t1 = time.time_ns()
            if st >= 500 and ("shard group not found" in txt or st == 599 or "timeout" in txt):
                time.sleep(0.25)
                continue
            break
        with self.lock:
            self.inflight.pop(token, None)
        return st, txt, t0, t1

    def post_all(self, items):
        """items: list of (key, db, body, prec) -> {key: (status, text, t0, t1)}"""
        out = {}

        def work(it):
            return it[0], self.post_retry(it[1], it[2], it[3])

        with cf.ThreadPoolExecutor(self.threads) as ex:
            for k, r in ex.map(work, items):
                out[k] = r
        return out

    def post_chains(self, chains):
        """chains: list of (key, db, [(body, prec), ...]): the requests of a chain one after the other, chains in parallel
        -> {key: [(status, text, t0, t1), ...]}"""
        out = {}

        def work(ch):
            rs = []
            for i, (body, prec) in enumerate(ch[2]):
                rs.append(self.post_retry(ch[1], body, prec, repro=[(ch[1], b, p) for b, p in ch[2][:i + 1]]))
            return ch[0], rs

        with cf.ThreadPoolExecutor(self.threads) as ex:
            for k, r in ex.map(work, chains):
                out[k] = r
        return out

    def wait_visible(self, timeout=240, late=False):
        """new series appear in queries after the index flush: write a sentinel last and poll for it (late: also one
        in the later shard group the schema cases write to, which has its own index)"""
        name = "c06sentinel%d" % time.time_ns()
        for db in self.dbs:
            self.post_retry(db, name + ",k=v v=1i 1000", None, tries=40)
        if late:
            self.post_retry(self.dbs[0], name + ",k=w v=1i %d" % S_LATE[0], None, tries=40)
        t0 = time.time()
        for db in self.dbs:
            while True:
                try:
                    st, body = self.srv.http("GET", "/query", {"q": "select * from " + name, "db": db, "epoch": "ns"}, timeout=120)
                except Exception as ex:                # noqa  (a starved machine: the poll goes on until the time is up)
                    if not self.srv.alive():
                        raise self._dead("a query")
                    st, body = 599, "client error: %r" % (ex,)
                if st == 200 and '"values"' in body and (not late or db != self.dbs[0] or str(S_LATE[0]) in body):
                    break
                if time.time() - t0 > timeout:
                    raise vlib.Infra("sentinel measurement never became visible: " + body[:300])
                time.sleep(0.2)
        time.sleep(1.0)
        return name

    def raw_query(self, db, q):
        try:
            return self.srv.http("GET", "/query", {"q": q, "db": db, "epoch": "ns"}, timeout=180)
        except Exception as ex:                # noqa
            if not self.srv.alive():
                raise self._dead("a query")
            raise vlib.Infra("query failed: %r" % (ex,))

    def read_points(self, wanted):
        """wanted: list of (key, db, mst) -> {key: stored}; stored = None (nothing) | {"error": txt} |
        {"series": [{"tags": {...}, "columns": [...], "values": [[...]]}]}"""
        out = {}
        chunks = {}
        for key, db, mst in wanted:
            chunks.setdefault(db, []).append((key, mst))
        jobs = []
        for db, lst in chunks.items():
            for i in range(0, len(lst), 60):
                jobs.append((db, lst[i:i + 60]))

        def one(db, key, mst):
            st, body = self.raw_query(db, "select * from %s group by *" % qident(mst))
            return key, self._decode_stmt(st, body, 0)

        def work(job):
            db, lst = job
            q = ";".join("select * from %s group by *" % qident(m) for _, m in lst)
            st, body = self.raw_query(db, q)
            res = []
            try:
                js = parse_json_exact(body)
                rs = js.get("results")
                if st != 200 or rs is None or len(rs) != len(lst):
                    raise ValueError("whole-query failure")
                for (key, _), r in zip(lst, rs):
                    res.append((key, self._decode_result(r)))
            except ValueError:
                res = [one(db, key, mst) for key, mst in lst]      # one statement poisons the whole answer: ask one by one
            return res

        with cf.ThreadPoolExecutor(min(16, self.threads)) as ex:
            for res in ex.map(work, jobs):
                for key, v in res:
                    out[key] = v
        return out

    def _decode_stmt(self, st, body, idx):
        try:
            js = parse_json_exact(body)
        except ValueError:
            return {"error": "unparsable answer (status %d): %s" % (st, body[:300])}
        if "results" not in js:
            return {"error": "status %d: %s" % (st, str(js.get("error", body))[:300])}
        return self._decode_result(js["results"][idx])

    @staticmethod
    def _decode_result(r):
        if "error" in r:
            if "measurement not found" in r["error"]:
                return None
            return {"error": r["error"]}
        if not r.get("series"):
            return None
        return {"series": r["series"]}

    def read_points_settled(self, wanted, acked):
        """read_points, then re-read (up to 4 times, 1.5 s apart) what was acknowledged but is not visible yet:
        the series index makes new series searchable shard by shard, the sentinel only bounds the usual lag"""
        out = self.read_points(wanted)
        for _ in range(4):
            again = [w for w in wanted if w[0] in acked and out.get(w[0]) is None]
            if not again:
                break
            time.sleep(1.5)
            out.update(self.read_points(again))
        return out

    def measurements(self, db):
        st, body = self.raw_query(db, "show measurements")
        js = parse_json_exact(body)
        names = set()
        for r in js.get("results", []):
            for s in r.get("series", []) or []:
                for v in s["values"]:
                    names.add(str(v[0]))
        return names

    def field_types(self, db):
        st, body = self.raw_query(db, "show field keys")
        js = parse_json_exact(body)
        out = {}
        for r in js.get("results", []):
            for s in r.get("series", []) or []:
                out[str(s["name"])] = {str(v[0]): str(v[1]) for v in s["values"]}
        return out


# ------------------------------------------------------------------------------------------------
# comparison of a real observation with a concrete outcome


def _same_float(tok, want):
    try:
        got = float(tok)
    except ValueError:
        return False
    return fbits(got) == fbits(want)


def match(obs, out):
    """obs = {"status", "text", "t0", "t1", "stored", "ftypes"}; out = concrete outcome. -> (ok, detail)"""
    st = obs["status"]
    stored = obs.get("stored")
    if out["kind"] != "Accept":
        if 200 <= st < 300:
            return False, "invalid line acknowledged with %d" % st
        if stored is not None:
            return False, "line answered %d but something is stored: %s" % (st, json.dumps(stored)[:300])
        return True, ""
    if not (200 <= st < 300):
        return False, "valid line answered %d %s" % (st, obs["text"].strip()[:200])
    poisoned = any(t == "float" and (v != v or v in (math.inf, -math.inf)) for t, v in out["fields"].values())
    if poisoned:                       # prediction of a deviation model only: the stored NaN/Inf breaks the JSON encoder
        if isinstance(stored, dict) and "unsupported value" in stored.get("error", ""):
            return True, ""
        return False, "expected the NaN/Inf answer failure, got %s" % (json.dumps(stored)[:300],)
    if stored is None:
        return False, "acknowledged (%d) but nothing is stored" % st
    if "error" in stored:
        return False, "query error: " + stored["error"][:300]
    ser = stored["series"]
    if len(ser) != 1 or len(ser[0].get("values", [])) != 1:
        return False, "expected one series with one row, got %s" % (json.dumps(ser)[:400],)
    s = ser[0]
    if str(s.get("name")) != out["mst"]:
        return False, "measurement %r != %r" % (s.get("name"), out["mst"])
    tags = {str(k): (str(v) if not isinstance(v, Num) else v) for k, v in (s.get("tags") or {}).items()}
    if tags != out["tags"] or any(isinstance(v, Num) for v in tags.values()):
        return False, "tags %r != %r" % (tags, out["tags"])
    cols = [str(c) for c in s["columns"]]
    row = s["values"][0]
    if cols[0] != "time" or sorted(cols[1:]) != sorted(out["fields"]):
        return False, "columns %r != time + %r" % (cols, sorted(out["fields"]))
    for c, v in zip(cols[1:], row[1:]):
        typ, want = out["fields"][c]
        if c in out.get("dupfields", ()):
            continue                                # the same key twice in one line: which value wins is not specified
        ft = (obs.get("ftypes") or {}).get(c)
        if ft != typ:
            return False, "field %r has type %r, want %r" % (c, ft, typ)
        if typ == "integer":
            if not isinstance(v, Num) or str(v) != str(want):
                return False, "integer field %r: read back %s, written %s" % (c, json.dumps(v), want)
        elif typ == "float":
            if not isinstance(v, Num) or not _same_float(str(v), want):
                return False, "float field %r: read back %s, written %r" % (c, json.dumps(v), want)
        elif typ == "boolean":
            if v is not want:
                return False, "boolean field %r: read back %s, written %r" % (c, json.dumps(v), want)
        elif typ == "string":
            if isinstance(v, Num) or not isinstance(v, str) or v != want:
                return False, "string field %r: read back %s, written %s" % (c, json.dumps(v), json.dumps(want))
    t = row[0]
    if not isinstance(t, Num):
        return False, "time is not a number: %r" % (t,)
    if out["ts"] == "now":
        if not (obs["t0"] - 50_000_000 <= int(t) <= obs["t1"] + 50_000_000):
            return False, "time %s outside the request window [%d, %d]" % (t, obs["t0"], obs["t1"])
    elif str(t) != str(out["ts"]):
        return False, "time read back %s, written %s" % (t, out["ts"])
    return True, ""


REJECT = {"kind": "Reject"}


def judge(cc, obs, open_ids):
    """-> ("ok" | "known" | "bad", finding ids, detail)"""
    ok, det = match(obs, cc["exp"])
    if ok:
        return "ok", [], ""
    if cc["exp"]["kind"] == "Accept" and "quote_in_field_key" in cc["exp"]["amb"]:
        ok2, _ = match(obs, REJECT)       # a quote inside a field key: rejecting is tolerated, a different value is not
        if ok2:
            return "ok", [], "rejected (quote in field key)"
    base = okey(cc["exp"])
    for x in cc["imp"]:
        unknown = [dv for dv in x["dev"] if dv not in FINDING_OF and dv not in FIXED_OF]
        if unknown:
            raise vlib.Infra("prediction automaton with unknown deviation %r" % (unknown,))
    # as-implemented automata first (single deviations, then all of them), the regression automata after them:
    # an observation that equals an as-implemented prediction is explained by the open findings alone
    imps = sorted((x for x in cc["imp"] if okey(x["out"]) != base),
                  key=lambda x: (any(dv in FIXED_OF for dv in x["dev"]), len(x["dev"])))
    singles = [x["dev"][0] for x in imps if len(x["dev"]) == 1]
    for x in imps:
        ok2, _ = match(obs, x["out"])
        if not ok2:
            continue
        fixed = [dv for dv in x["dev"] if dv in FIXED_OF]
        if fixed:       # equals what the code did before a fix: commit and nothing the code as it is would do
            fired = [dv for dv in fixed if dv in (x["out"].get("used") or [])] or fixed
            ids = sorted({FIXED_OF[dv][0] for dv in fired})
            return "bad", ids, det + " (REGRESSION: equals the prediction of the deviation model %s of the repaired finding %s)" % (
                "+".join(fired), ", ".join("%s (fixed by %s)" % FIXED_OF[dv] for dv in fired))
        devs = x["dev"] if len(x["dev"]) == 1 else (x["out"].get("used") or singles)
        ids = sorted({FINDING_OF[dv] for dv in devs if dv in FINDING_OF})
        if ids and all(i in open_ids for i in ids) and all(dv in FINDING_OF for dv in devs):
            return "known", ids, det
        return "bad", ids, det + " (equals the prediction of %s, which is not an open finding)" % (x["dev"],)
    return "bad", [], det


def okey(out):
    """canonical, comparable form of a concrete outcome"""
    if out["kind"] != "Accept":
        return ("Reject",)
    fs = tuple(sorted((k, t, fbits(v) if t == "float" else v) for k, (t, v) in out["fields"].items()))
    return ("Accept", out["mst"], tuple(sorted(out["tags"].items())), fs, out["ts"])


# ------------------------------------------------------------------------------------------------
# generation


def _cfg_devsets(cfg):
    """the deviation constants of a cfg file must be the sets this module attributes with"""
    txt = open(os.path.join(os.path.dirname(os.path.abspath(__file__)), "..", "specs", "cfg", cfg)).read()
    got = {}
    for name in ("ImplDev", "FixedDev"):
        mm = re.search(r"^\s*%s\s*=\s*\{([^}]*)\}" % name, txt, re.M)
        if not mm:
            raise vlib.Infra("%s: constant %s missing" % (cfg, name))
        got[name] = set(re.findall(r'"([^"]+)"', mm.group(1)))
    if got["ImplDev"] != set(IMPL_DEVS) or got["FixedDev"] != set(FIXED_OF):
        raise vlib.Infra("%s: ImplDev / FixedDev %r differ from IMPL_DEVS / FIXED_OF of props/c06.py" % (cfg, got))


def _tlc(cfg, stats, key, timeout=1500, **kw):
    _cfg_devsets(cfg)
    r = vlib.run_tlc("LineProtocolMC", cfg, timeout=timeout, **kw)
    vlib.tlc_must_pass(r, cfg)
    stats[key] = {"cfg": cfg, "generated": r["generated"], "distinct": r["distinct"], "depth": r["depth"],
                  "wall_s": round(r["wall_s"], 1), "cases": len(r["traces"])}
    return r


def _canon(tr):
    """TLC prints the cases of a multi-worker BFS in no fixed order: sort them, so that a seed names one sample"""
    return sorted(tr, key=lambda t: (len(t["line"]), t["line"], t.get("prec", "")))


def _sample(tr, n, rnd):
    """seeded sample of n cases. Lines the design accepts are the minority of an enumeration: they get up to 45% of
    the sample, lines only an as-implemented automaton accepts up to 20%, rejected lines the rest"""
    if len(tr) <= n:
        return tr
    acc = [t for t in tr if t["exp"]["kind"] == "Accept"]
    imp = [t for t in tr if t["exp"]["kind"] != "Accept" and any(x["out"]["kind"] == "Accept" for x in t["imp"])]
    rej = [t for t in tr if t["exp"]["kind"] != "Accept" and not any(x["out"]["kind"] == "Accept" for x in t["imp"])]
    nr = min(len(rej), n - min(len(acc), n * 45 // 100) - min(len(imp), n * 20 // 100))
    ni = min(len(imp), max(n * 20 // 100, 0))
    na = min(len(acc), n - nr - ni)
    ni = min(len(imp), n - nr - na)
    return rnd.sample(acc, na) + rnd.sample(imp, ni) + rnd.sample(rej, n - na - ni)


VALUE_REPS = {"quick": 8, "thorough": 24}
TLC_JOBS = 5          # TLC processes at a time (Mode A of both modules next to the exports)


def gen_cases(tier, seed):
    stats = {}
    rnd = random.Random(seed)
    # values / ts: every exported case also in the quick tier (a wrong spelling such as v=tRUE is one text of one token
    # in ~50 of the 8720 value lines: a 2000-line sample met it too rarely to catch a lenient boolean parser reliably)
    plan = [("struct", "LineProtocol.bfs.struct.%s.cfg" % tier, 3000, 40000), ("values", "LineProtocol.bfs.values.cfg", 10**9, 10**9),
            ("ts", "LineProtocol.bfs.ts.cfg", 10**9, 10**9), ("tags", "LineProtocol.bfs.tags.cfg", 600, 10**9),
            # escapes in one tag + one field up to 10 classes (m,k=\,v f=1i needs 10): every accepted line is replayed
            ("esc", "LineProtocol.bfs.esc.cfg", 2400, 10**9)]
    nsim = 600 if tier == "quick" else 8000
    # what is sampled, and in which order the seeded generator is used, does not depend on the order in which the
    # TLC runs finish
    nssim = 250 if tier == "quick" else 4000
    # the TLC runs are independent processes, TLC_JOBS at a time: the exports first (the replay starts when they are
    # done), Mode A of both modules behind them: it goes on next to the replay and must have passed before a verdict
    ex = cf.ThreadPoolExecutor(TLC_JOBS)
    try:
        futs = {key: ex.submit(_tlc, cfg, stats, key, workers=8) for key, cfg, _, _ in plan}
        futs["sim"] = ex.submit(_tlc, "LineProtocol.sim.cfg", stats, "sim", simulate=nsim, depth=40, seed=seed)
        for key, cfg, _, _ in S_PLAN:
            futs[key] = ex.submit(_tlc_s, cfg, stats, key, workers=6)
        futs["s_sim"] = ex.submit(_tlc_s, "LineSchema.sim.cfg", stats, "s_sim", simulate=nssim, depth=12, seed=seed)
        mode_a = [ex.submit(_tlc, "LineProtocol.exh.%s.cfg" % tier, stats, "exh", timeout=3000, workers=6)]
        for key, name in (("s_exh", "exh"), ("s_exh2", "exh2")) + ((("s_exh3", "exh3"),) if tier == "thorough" else ()):
            mode_a.append(ex.submit(_tlc_s, "LineSchema.%s.%s.cfg" % (name, tier), stats, key, timeout=3000, workers=6))
        res = {key: f.result() for key, f in futs.items()}
    except BaseException:
        ex.shutdown(wait=False, cancel_futures=True)
        raise
    ex.shutdown(wait=False)
    cases = []
    for key, cfg, nquick, nthorough in plan:
        tr = _sample(_canon(res[key]["traces"]), nquick if tier == "quick" else nthorough, rnd)
        if key == "values":
            # text coverage of the value tokens: the lines whose verdict hinges on ONE token (measurement, key, token,
            # at most one more class) are concretised VALUE_REPS times, each with its own measurement and texts
            tr = tr + [t for t in tr if len(t["line"]) <= 6] * (VALUE_REPS[tier] - 1)
        stats[key]["replayed"] = len(tr)
        cases += [dict(t, src=key) for t in tr]
    tr = _sample(res["sim"]["traces"], 1500 if tier == "quick" else 20000, rnd)
    stats["sim"]["replayed"] = len(tr)
    cases += [dict(t, src="sim") for t in tr]
    # schema layer: sequences of requests for one measurement
    rnd = random.Random(seed * 31 + 7)
    scases = []
    for key, _, nquick, nthorough in S_PLAN + [("s_sim", None, 1200, 20000)]:
        # behaviours in which a failed schema command left a new name behind in meta (marker partial_pool_applied of
        # LineSchema.tla, only with F-C06-9 / F-C06-10) have no deterministic as-implemented prediction: not replayed
        det = [t for t in res[key]["traces"] if not s_nondet(t)]
        stats[key]["not_replayed_nondeterministic"] = len(res[key]["traces"]) - len(det)
        tr = s_sample(det, nquick if tier == "quick" else nthorough, rnd)
        stats[key]["replayed"] = len(tr)
        scases += [dict(t, src=key) for t in tr]
    return cases, scases, stats, mode_a


# ------------------------------------------------------------------------------------------------
# replay of single lines and batches


def unique_mst(case):
    return any(case["line"][i - 1] in ("P", "U") for i in case["exp"]["mst"])


def assign_dbs(ccs, sess):
    """every case goes to the main database when its measurement name carries the case id; measurement names made
    of quote / equals / escaped characters only are shared by many cases: up to NLANES of them per name are kept,
    one per lane database"""
    seen, skipped = {}, 0
    for cc in ccs:
        mst = cc["exp"]["mst"]
        if mst is None or unique_mst(cc["case"]):
            cc["db"] = sess.dbs[0]
            continue
        k = seen.get(mst, 0)
        seen[mst] = k + 1
        if k < sess.NLANES:
            cc["db"] = sess.dbs[1 + k]
        else:
            cc["db"] = None
            skipped += 1
    return skipped


def observe_all(sess, ccs, extra_wanted=()):
    """post every concrete case on its own, wait for the index, read everything back"""
    live = [cc for cc in ccs if cc.get("db")]
    res = sess.post_all([(cc["id"], cc["db"], cc["body"] + cc.get("eol", ""), cc["prec"]) for cc in live])
    sess.wait_visible()
    wanted = [(cc["id"], cc["db"], cc["exp"]["mst"]) for cc in live if cc["exp"]["mst"] is not None]
    acked = {cc["id"] for cc in live if 200 <= res[cc["id"]][0] < 300}
    stored = sess.read_points_settled(wanted + list(extra_wanted), acked)
    ftypes = {db: sess.field_types(db) for db in sess.dbs}
    for cc in live:
        st, txt, t0, t1 = res[cc["id"]]
        mst = cc["exp"]["mst"]
        cc["obs"] = {"status": st, "text": txt, "t0": t0, "t1": t1, "stored": stored.get(cc["id"]),
                     "ftypes": ftypes[cc["db"]].get(mst, {}) if mst is not None else {}}
    return stored, ftypes


def make_batches(ccs, seed, n, next_id):
    """batches mixing lines the single-line replay found conforming: valid ones and parse-level rejects"""
    rnd = random.Random(seed * 7 + 5)
    good = [cc for cc in ccs if cc.get("verdict") == "ok" and cc["exp"]["kind"] == "Accept" and cc["db"] == "c06"
            and not cc["exp"]["amb"] and cc["exp"]["ts"] != "now"]
    bad = [cc for cc in ccs if cc.get("verdict") == "ok" and cc["exp"]["kind"] != "Accept" and cc["db"] == "c06"
           and cc["exp"]["mst"] is not None and unique_mst(cc["case"]) and "partial write" not in cc["obs"]["text"]
           and cc["obs"]["status"] == 400]
    batches = []
    if not good or not bad:
        return batches, next_id
    shapes = ["GB", "BG", "GBG", "BGB", "GGB", "BBG", "GG", "BB", "GBGB"]
    for b in range(n):
        shape = shapes[b % len(shapes)]
        members, prec = [], None
        for ch in shape:
            pool = good if ch == "G" else bad
            if prec is not None:                 # one precision per request
                pool = [x for x in pool if x["prec"] == prec or not any(c.startswith("TS_") for c in x["case"]["line"])]
            if not pool:
                break
            src = rnd.choice(pool)
            if any(c.startswith("TS_") for c in src["case"]["line"]):
                prec = src["prec"]
            m = concretise(src["case"], next_id, seed, rid=src["rid"])
            next_id += 1
            m["valid"] = ch == "G"
            members.append(m)
        if len(members) != len(shape):
            continue
        for m in members:
            m["prec"] = prec or ""
        sep = rnd.choice(["\n", "\n", "\r\n", "\n\n"])
        tail = rnd.choice(["", "\n"])
        batches.append({"id": "b%d" % b, "shape": shape, "members": members, "prec": prec or "",
                        "body": sep.join(m["body"] for m in members) + tail})
    return batches, next_id


def judge_batch(b, open_ids):
    """design: an invalid line makes the request fail (4xx) and stores nothing; an acknowledged request has stored
    every valid line. As implemented (F-C06-6, batch_last_line_decides): the parse error of a line is overwritten by
    the result of the next one, so the LAST line of the block decides: invalid -> 400 and nothing of the block is
    stored; valid -> 204, valid lines stored, invalid ones dropped silently."""
    st = b["status"]
    valid = [m["valid"] for m in b["members"]]
    stored = [m["obs"]["stored"] is not None for m in b["members"]]
    exact = [match(m["obs"], m["exp"])[0] for m in b["members"]]
    problems = []
    if all(valid):
        if not (200 <= st < 300):
            problems.append("valid batch answered %d" % st)
    elif 200 <= st < 300:
        problems.append("batch with an invalid line acknowledged with %d" % st)
    for m, v, s, e in zip(b["members"], valid, stored, exact):
        if not v and s:
            problems.append("invalid line stored something: %r" % m["body"])
        if v and 200 <= st < 300 and not e:
            problems.append("acknowledged valid line not stored exactly: %r" % m["body"])
        if v and s and not e:
            problems.append("valid line stored with different content: %r" % m["body"])
    if not problems:
        return "ok", [], ""
    det = "; ".join(problems)
    pred_status = 204 if valid[-1] else 400
    pred_ok = st == pred_status and all((e if (v and pred_status == 204) else not s) for v, s, e in zip(valid, stored, exact))
    if pred_ok and "F-C06-6" in open_ids:
        return "known", ["F-C06-6"], det
    return "bad", [], det


def run_batches(sess, batches):
    res = sess.post_all([(b["id"], "c06", b["body"], b["prec"]) for b in batches])
    sess.wait_visible()
    wanted = [(m["id"], "c06", m["exp"]["mst"]) for b in batches for m in b["members"]]
    acked = {m["id"] for b in batches if 200 <= res[b["id"]][0] < 300 for m in b["members"] if m["valid"]}
    stored = sess.read_points_settled(wanted, acked)
    ftypes = sess.field_types("c06")
    for b in batches:
        st, txt, t0, t1 = res[b["id"]]
        b["status"], b["text"] = st, txt
        for m in b["members"]:
            # status 204: match() against the member's own outcome then judges the stored content only
            m["obs"] = {"status": 204, "text": txt, "t0": t0, "t1": t1, "stored": stored.get(m["id"]),
                        "ftypes": ftypes.get(m["exp"]["mst"], {})}


# ------------------------------------------------------------------------------------------------
# schema layer (specs/LineSchema.tla): sequences of requests for ONE measurement


def key_texts(rnd, n):
    """n distinct key texts in byte order: name i of the specification is the i-th smallest (points_writer.go sorts
    the fields of a row by key before the schema check)"""
    out = set()
    while len(out) < n:
        base = rnd.choice(P_FIRST) + b36(rnd.randrange(36 ** 3))
        r = rnd.random()
        if r < 0.15:
            base += rnd.choice([" ", ",", "="]) + rnd.choice(P_LAST)          # escaped in the line text
        elif r < 0.25:
            base += rnd.choice(U_ALPHA)
        elif r < 0.40:
            base += rnd.choice(P_PUNCT) + rnd.choice(P_LAST)
        if base != "time":
            out.add(base)
    return sorted(out, key=lambda x: x.encode("utf-8"))


def esc_key(k):
    return k.replace(",", "\\,").replace(" ", "\\ ").replace("=", "\\=")


def str_text(rnd):
    """-> (text of a quoted string field value, its value). A backslash escapes a quote and a backslash; in front of
    anything else it is literal, so k backslashes in front of an ordinary character are spelled 2k or 2k-1"""
    parts = []
    for _ in range(rnd.choice([0, 1, 1, 2, 2, 3, 4])):
        r = rnd.random()
        if r < 0.35:
            parts.append(rnd.choice(["a", "Zq", "7", " ", ",", "=", "é", "x y", "C:", "dir", "'", "日本", "k=v,", "file"]))
        elif r < 0.65:
            parts.append("\\" * rnd.choice([1, 1, 2, 2, 3]))
        elif r < 0.78:
            parts.append('"')
        else:
            parts.append(b36(rnd.randrange(36 ** 4)))
    val = "".join(parts)
    txt, i = "", 0
    while i < len(val):
        c = val[i]
        if c == "\\":
            j = i
            while j < len(val) and val[j] == "\\":
                j += 1
            k = j - i
            plain_next = j < len(val) and val[j] != '"'
            txt += "\\" * (2 * k - 1 if plain_next and rnd.random() < 0.4 else 2 * k)
            i = j
        elif c == '"':
            txt += '\\"'
            i += 1
        else:
            txt += c
            i += 1
    return '"' + txt + '"', val


def s_concretise(case, cid, seed):
    """a TLC case of LineSchemaMC -> request bodies + the concrete value of every field text"""
    rnd = sub_rng(seed, cid)
    keys = key_texts(rnd, len(case["sch"]))
    kid = {e["k"]: keys[i] for i, e in enumerate(sorted(case["sch"], key=lambda e: e["k"]))}
    mst = plain_text(rnd, cid, 1, True)
    tagval, times, used = {}, {}, set()

    def tval(v):
        if v not in tagval:
            tagval[v] = rnd.choice(P_FIRST) + b36(rnd.randrange(36 ** 2)) + rnd.choice(["", "", "\\,", "\\ ", "\\=", "é", "."]) + v
        return tagval[v]

    def ctime(t, late):
        if t not in times:
            lo, hi = S_LATE if late else S_EARLY
            while True:
                x = rnd.choice([rnd.randint(lo, hi - 1), lo + rnd.randint(0, 50)])
                if x not in used:
                    break
            used.add(x)
            times[t] = x
        return times[t]

    vals, reqs, n = {}, [], 0
    for r in case["reqs"]:
        lines = []
        for l in r["lines"]:
            n += 1
            flds = []
            for f in l["fields"]:
                if f["tok"] == "STR":
                    txt, v = str_text(rnd)
                else:
                    txt = value_text(rnd, f["tok"])
                    if f["t"] == "int":
                        v = int(txt[:-1])
                    elif f["t"] == "float":
                        v = float(txt[:-1] if txt.endswith("f") else txt)
                    elif f["t"] == "bool":
                        v = f["val"] == "true"
                    else:
                        raise vlib.Infra("unknown field type %r" % (f,))
                vals[(n, f["k"])] = (f["t"], v, f["via"])
                flds.append(esc_key(kid[f["k"]]) + "=" + txt)
            tags = [esc_key(kid[t["k"]]) + "=" + tval(t["v"]) for t in l["tags"]]
            rnd.shuffle(flds)
            rnd.shuffle(tags)
            lines.append(mst + "".join("," + t for t in tags) + " " + ",".join(flds) + " " + str(ctime(l["time"], l["late"])))
        reqs.append({"body": rnd.choice(["\n", "\n", "\r\n"]).join(lines) + rnd.choice(["", "\n"]), "n": len(lines)})
    unesc = {v: re.sub(r"\\([, =])", r"\1", t) for v, t in tagval.items()}
    return {"id": cid, "case": case, "mst": mst, "kid": kid, "tagval": unesc, "times": times, "vals": vals, "reqs": reqs,
            "body": " | ".join(r["body"] for r in reqs)}


def s_prediction(cc, pred, f64):
    """the concrete prediction of the design state (pred = None) or of a prediction state of the specification (pred = an
    entry of case["preds"]), integers exact or through float64 (F-C06-1)
    -> {"replies": [(class, dropped)], "rows": [(tags, time, cells)], "ftypes": {...}}"""
    case = cc["case"]
    view, sch = (case["view"], case["sch"]) if pred is None else (pred["view"], pred["sch"])
    ty = {e["k"]: e["ty"] for e in sch}
    rows, changed = {}, False
    for c in view:
        # queries show the tag keys the schema knows as tags; the series key holds every tag of the line
        full = tuple(sorted((cc["kid"][t["k"]], cc["tagval"][t["v"]]) for t in c["tags"]))
        shown = tuple(sorted((cc["kid"][t["k"]], cc["tagval"][t["v"]]) for t in c["tags"] if ty[t["k"]] == "tag"))
        typ, v, via = cc["vals"][(c["ref"], c["k"])]
        if typ != c["tt"]:
            raise vlib.Infra("cell type %r differs from the text type %r" % (c, typ))
        if f64 and typ == "int" and via == "f64" and int_via_float64(v) != v:
            v, changed = int_via_float64(v), True
        rows.setdefault((full, cc["times"][c["time"]]), (shown, {}))[1][cc["kid"][c["k"]]] = (typ, v)
    replies = [(r["st"], r["dropped"]) for r in (case["reqs"] if pred is None else pred["replies"])]
    return {"replies": replies, "rows": [(shown, t, cells) for (full, t), (shown, cells) in rows.items()],
            "ftypes": {cc["kid"][k]: TYPE_NAME[t] for k, t in ty.items() if t in TYPE_NAME}, "f64_changed": changed}


def cell_ok(typ, want, v):
    if typ == "int":
        return isinstance(v, Num) and str(v) == str(want)
    if typ == "float":
        return isinstance(v, Num) and _same_float(str(v), want)
    if typ == "bool":
        return v is want
    return not isinstance(v, Num) and isinstance(v, str) and v == want


def s_match(obs, pred):
    """obs = {"replies": [(status, text)], "stored", "ftypes"} against a concrete prediction -> (ok, detail)"""
    for i, ((st, txt), (wst, wdrop)) in enumerate(zip(obs["replies"], pred["replies"]), 1):
        if wst == 204:
            if not (200 <= st < 300):
                return False, "request %d: expected 204, answered %d %s" % (i, st, txt.strip()[:160])
        else:
            if st != 400 or "partial write" not in txt:
                return False, "request %d: expected 400 partial write, answered %d %s" % (i, st, txt.strip()[:160])
            mm = re.search(r"dropped=(\d+)", txt)
            if not mm or int(mm.group(1)) != wdrop:
                return False, "request %d: expected dropped=%d, answered %s" % (i, wdrop, txt.strip()[:200])
    stored = obs["stored"]
    if isinstance(stored, dict) and "error" in stored:
        return False, "query error: " + stored["error"][:300]
    got = []
    for s in (stored or {}).get("series", []):
        tags = tuple(sorted((str(k), str(v)) for k, v in (s.get("tags") or {}).items()))
        cols = [str(c) for c in s["columns"]]
        if cols[0] != "time":
            return False, "first column is %r" % (cols[0],)
        for row in s.get("values", []):
            if not isinstance(row[0], Num):
                return False, "time is not a number: %r" % (row[0],)
            got.append((tags, int(row[0]), {c: v for c, v in zip(cols[1:], row[1:]) if v is not None}, set(cols[1:])))
    want = list(pred["rows"])
    fkeys = set(pred["ftypes"])
    for tags, t, cells, cols in got:
        if not cols <= fkeys:
            return False, "columns %r are not fields of the measurement (%r)" % (sorted(cols - fkeys), sorted(fkeys))
        hit = None
        for j, (wtags, wt, wcells) in enumerate(want):
            if wtags == tags and wt == t and set(wcells) == set(cells) and all(cell_ok(wcells[c][0], wcells[c][1], cells[c]) for c in cells):
                hit = j
                break
        if hit is None:
            near = [(wc) for wtags, wt, wc in want if wtags == tags and wt == t]
            return False, "stored row tags=%r time=%d %s is not what was written (%s)" % (
                dict(tags), t, json.dumps(cells, ensure_ascii=False)[:300],
                ("expected " + repr(near[0])[:300]) if near else "no such series / time expected")
        want.pop(hit)
    if want:
        wtags, wt, wcells = want[0]
        return False, "%d expected rows are not stored, e.g. tags=%r time=%d %r" % (len(want), dict(wtags), wt, wcells)
    have = {k: v for k, v in (obs.get("ftypes") or {}).items()}
    if have != pred["ftypes"]:
        return False, "field types %r != %r" % (have, pred["ftypes"])
    return True, ""


def s_judge(cc, obs, open_ids):
    """-> ("ok" | "known" | "bad", finding ids, detail): the design first, then the design with integers through float64
    (F-C06-1), then the prediction states of the specification in which a deviation fired in this case: the
    as-implemented ones (single deviations, then all of them), the regression ones last; every attribution is the exact
    equality with that prediction and names the deviations that FIRED"""
    preds = sorted(cc["case"]["preds"], key=lambda x: (any(d in S_FIXED_OF for d in x["dev"]), len(x["dev"])))
    for x in preds:
        unknown = [d for d in x["dev"] if d not in S_FINDING_OF and d not in S_FIXED_OF]
        if unknown:
            raise vlib.Infra("prediction state with unknown deviation %r" % (unknown,))
    first = None
    for pred in [None] + preds:
        for f64 in (False, True):
            p = s_prediction(cc, pred, f64)
            if f64 and not p["f64_changed"]:
                continue
            ok, det = s_match(obs, p)
            if first is None:
                first = det
            if not ok:
                continue
            if pred is None and not f64:
                return "ok", [], ""
            devs = ([d for d in pred["trig"] if d != S_MARKER] if pred else []) + (["int_via_float64"] if f64 else [])
            fixed = [d for d in devs if d in S_FIXED_OF]
            if fixed:
                return "bad", sorted({S_FIXED_OF[d][0] for d in fixed}), first + (
                    " (REGRESSION: equals the prediction of the deviation model %s of the repaired finding %s)" % (
                        "+".join(fixed), ", ".join("%s (fixed by %s)" % S_FIXED_OF[d] for d in fixed)))
            ids = sorted({S_FINDING_OF.get(d) or FINDING_OF[d] for d in devs})
            if all(i in open_ids for i in ids):
                return "known", ids, first
            return "bad", ids, first + " (equals the prediction of %s, which is not an open finding)" % (devs,)
    return "bad", [], first


def s_nondet(t):
    """the code as it is (the prediction state of all of SImplDev) met the marker partial_pool_applied"""
    return any(S_MARKER in x["trig"] and set(x["dev"]) == set(S_FINDING_OF) for x in t["preds"])


def s_sample(tr, n, rnd):
    """seeded sample of n cases, 70 % of them with a request the design answers with a partial write"""
    tr = sorted(tr, key=lambda t: json.dumps(t["reqs"], sort_keys=True))
    if len(tr) <= n:
        return tr
    hot = [t for t in tr if t["preds"] or any(r["st"] != 204 for r in t["reqs"])]
    cold = [t for t in tr if not (t["preds"] or any(r["st"] != 204 for r in t["reqs"]))]
    nh = min(len(hot), n * 70 // 100)
    nc = min(len(cold), n - nh)
    nh = min(len(hot), n - nc)
    return rnd.sample(hot, nh) + rnd.sample(cold, nc)


S_PLAN = [  # key, cfg, cases replayed by the quick / thorough tier
    ("s_pairs", "LineSchema.bfs.pairs.cfg", 10**9, 10**9), ("s_multi", "LineSchema.bfs.multi.cfg", 1200, 10**9),
    ("s_clash", "LineSchema.bfs.clash.cfg", 900, 12000), ("s_over", "LineSchema.bfs.over.cfg", 500, 10**9)]


def _cfg_sdevsets(cfg):
    txt = open(os.path.join(os.path.dirname(os.path.abspath(__file__)), "..", "specs", "cfg", cfg)).read()
    for name, want in (("SImplDev", set(S_FINDING_OF)), ("SFixedDev", set(S_FIXED_OF)), ("ImplDev", set(IMPL_DEVS))):
        mm = re.search(r"^\s*%s\s*=\s*\{([^}]*)\}" % name, txt, re.M)
        if not mm or set(re.findall(r'"([^"]+)"', mm.group(1))) != want:
            raise vlib.Infra("%s: constant %s differs from S_FINDING_OF / S_FIXED_OF / IMPL_DEVS of props/c06.py" % (cfg, name))


def _tlc_s(cfg, stats, key, timeout=1500, **kw):
    _cfg_sdevsets(cfg)
    r = vlib.run_tlc("LineSchemaMC", cfg, timeout=timeout, **kw)
    vlib.tlc_must_pass(r, cfg)
    stats[key] = {"cfg": cfg, "generated": r["generated"], "distinct": r["distinct"], "depth": r["depth"],
                  "wall_s": round(r["wall_s"], 1), "cases": len(r["traces"])}
    return r


def s_observe(sess, sccs):
    res = sess.post_chains([(cc["id"], "c06", [(r["body"], None) for r in cc["reqs"]]) for cc in sccs])
    sess.wait_visible(late=True)
    wanted = [(cc["id"], "c06", cc["mst"]) for cc in sccs]

    def read(which):
        stored = sess.read_points([w for w in wanted if w[0] in which])
        ftypes = sess.field_types("c06")
        for cc in sccs:
            if cc["id"] in which:
                cc["obs"] = {"replies": [(st, txt) for st, txt, _, _ in res[cc["id"]]], "stored": stored.get(cc["id"]),
                             "ftypes": ftypes.get(cc["mst"], {})}

    read({cc["id"] for cc in sccs})
    return read


def s_replay(sess, sccs, open_ids):
    """post, read back, judge; a case that matches no prediction is read again (up to 3 times, 1.5 s apart): a new
    series becomes searchable shard by shard, a wrong cell stays wrong"""
    read = s_observe(sess, sccs)
    for rnd_ in range(4):
        again = set()
        for cc in sccs:
            if cc.get("verdict") in ("ok", "known"):
                continue
            cc["verdict"], cc["findings"], cc["detail"] = s_judge(cc, cc["obs"], open_ids)
            if cc["verdict"] == "bad":
                again.add(cc["id"])
        if not again or rnd_ == 3:
            break
        time.sleep(1.5)
        read(again)


def slim(cc):
    return {k: cc[k] for k in ("id", "rid", "case", "body", "prec", "db") if k in cc}


def confirm_crash(cands):
    """the server died: every request (sequence) that was in flight is posted alone, one after the other, to a fresh
    server -> (the requests after which that server is dead as well, the tail of its log) or (None, "")"""
    uniq, seen = [], set()
    for c in cands:
        k = json.dumps(c)
        if k not in seen:
            seen.add(k)
            uniq.append(c)
    vlib.log("[c06] ts-server died; %d requests (sequences) were in flight: each is posted alone to a fresh server" % len(uniq))
    sess = Session(threads=2)
    try:
        for c in uniq:
            try:
                for db, body, prec in c:
                    sess.post_retry(db, body, prec, tries=3)
                time.sleep(0.2)
                sess.post_retry(sess.dbs[0], "c06alive v=1i 1000", None, tries=3)
            except ServerDied:
                return c, sess.srv.tail_log(6000)
            if not sess.srv.alive():
                return c, sess.srv.tail_log(6000)
    finally:
        sess.stop()
    return None, ""


def replay_cases(cases, scases, seed, tier, nbatches, sess=None):
    """-> summary dict"""
    open_ids = {f["id"] for f in vlib.load_known(PROP)}
    ccs = [concretise(c, i + 1, seed) for i, c in enumerate(cases)]
    sccs = [s_concretise(c, len(cases) + 10 * nbatches + 1000 + i, seed) for i, c in enumerate(scases)]
    rnd = random.Random(seed + 11)
    for cc in ccs:
        cc["eol"] = "\r" if rnd.random() < 0.05 else ""       # CRLF line ends are accepted
    sess = sess or Session()
    s_err, t_s = [], [0.0]

    def s_work():                  # the request sequences have their own measurements: replayed next to the single lines
        t0 = time.time()
        try:
            if sccs:
                s_replay(sess, sccs, open_ids)
        except BaseException as ex:            # noqa
            s_err.append(ex)
        t_s[0] = time.time() - t0

    s_thread = threading.Thread(target=s_work, daemon=True)
    died = None
    try:
        s_thread.start()
        try:
            skipped = assign_dbs(ccs, sess)
            t0 = time.time()
            observe_all(sess, ccs)
            t_single = time.time() - t0
            live = [cc for cc in ccs if cc.get("db")]
            for cc in live:
                cc["verdict"], cc["findings"], cc["detail"] = judge(cc, cc["obs"], open_ids)
            # nothing but the expected measurements may exist
            stray = []
            for db in sess.dbs:
                have = sess.measurements(db)
                # (a rejected line may leave its measurement behind, empty: that one is read back like any other)
                want = {cc["exp"]["mst"] for cc in live if cc["db"] == db}
                smst = {x["mst"] for x in sccs}
                for name in have - want - smst:
                    if name.startswith("c06warm") or name.startswith("c06sentinel"):
                        continue
                    stray.append((db, name, [cc["body"] for cc in live if name[:6] in cc["body"]][:3]))
            batches, _ = make_batches(live, seed, nbatches, len(ccs) + 1)
            t0 = time.time()
            if batches:
                run_batches(sess, batches)
                for b in batches:
                    b["verdict"], b["findings"], b["detail"] = judge_batch(b, open_ids)
            t_batch = time.time() - t0
        except ServerDied as ex:
            died = ex
        s_thread.join()
        died = died or next((e for e in s_err if isinstance(e, ServerDied)), None)
        if s_err and not died:
            raise s_err[0]
        t_schema = t_s[0]
    finally:
        if s_thread.is_alive():
            s_thread.join(timeout=600)
        cands = list(sess.inflight.values())
        sess.stop()
    if died:
        culprit, tail = confirm_crash(cands)
        if culprit is None:
            raise died                      # not reproduced by any single request: infrastructure
        return {"crash": {"requests": culprit, "log": tail}, "sccs": [], "live": [], "batches": []}
    return {"ccs": ccs, "live": live, "skipped": skipped, "stray": stray, "batches": batches, "t_single": t_single,
            "t_batch": t_batch, "open_ids": open_ids, "sccs": sccs, "t_schema": t_schema}


def report(summary, seed):
    """prints KNOWN-FINDING / VIOLATION lines -> (number of violations, per-finding counts, reject5xx)"""
    live, batches = summary["live"], summary["batches"]
    sccs = summary.get("sccs", [])
    known = {}
    for x in live + batches + sccs:
        if x.get("verdict") == "known":
            for fid in x["findings"]:
                known.setdefault(fid, []).append(x)
    for fid in sorted(known):
        ex = known[fid][0]
        what = repr(ex["body"])[:160]
        print("KNOWN-FINDING: property=%s %s re-observed in %d cases, e.g. %s -> %s" % (PROP, fid, len(known[fid]), what, ex["detail"][:220]))
    bad = [x for x in live if x["verdict"] == "bad"]
    badb = [b for b in batches if b["verdict"] == "bad"]
    nviol = 0
    groups = {}
    for x in bad:
        groups.setdefault(re.sub(r"[0-9]+|'[^']*'|\"[^\"]*\"", "#", x["detail"])[:80], []).append(x)
    for g, xs in sorted(groups.items(), key=lambda kv: -len(kv[1])):
        for x in xs[:2]:
            path = vlib.save_replay(PROP, {"kind": "line", "seed": seed, "cc": slim(x), "status": x["obs"]["status"],
                                           "answer": x["obs"]["text"][:300], "detail": x["detail"]})
            print("VIOLATION property=%s replay=%s" % (PROP, path))
            vlib.log("  line %r precision=%r -> %d: %s (%d alike)" % (x["body"], x["prec"], x["obs"]["status"], x["detail"], len(xs)))
        nviol += len(xs)
    for b in badb[:5]:
        path = vlib.save_replay(PROP, {"kind": "batch", "seed": seed, "shape": b["shape"], "body": b["body"], "prec": b["prec"],
                                       "members": [dict(slim(m), valid=m["valid"]) for m in b["members"]], "detail": b["detail"]})
        print("VIOLATION property=%s replay=%s" % (PROP, path))
        vlib.log("  batch %r -> %d: %s" % (b["body"], b["status"], b["detail"]))
    nviol += len(badb)
    groups = {}
    for x in sccs:
        if x["verdict"] == "bad":
            groups.setdefault(re.sub(r"[0-9]+|'[^']*'|\"[^\"]*\"", "#", x["detail"])[:60], []).append(x)
    for g, xs in sorted(groups.items(), key=lambda kv: -len(kv[1])):
        for x in xs[:2]:
            path = vlib.save_replay(PROP, {"kind": "schema", "seed": seed, "id": x["id"], "case": x["case"],
                                           "requests": [r["body"] for r in x["reqs"]],
                                           "answers": [[st, txt[:300]] for st, txt in x["obs"]["replies"]], "detail": x["detail"]})
            print("VIOLATION property=%s replay=%s" % (PROP, path))
            vlib.log("  requests %r -> %s: %s (%d alike)" % ([r["body"] for r in x["reqs"]], [st for st, _ in x["obs"]["replies"]],
                                                           x["detail"], len(xs)))
        nviol += len(xs)
    for db, name, cand in summary["stray"][:5]:
        path = vlib.save_replay(PROP, {"kind": "stray", "seed": seed, "db": db, "measurement": name, "candidates": cand})
        print("VIOLATION property=%s replay=%s" % (PROP, path))
        vlib.log("  measurement %r exists in %s although no line names it; candidates %r" % (name, db, cand))
    nviol += len(summary["stray"])
    r5 = [x for x in live if x["exp"]["kind"] != "Accept" and x["verdict"] == "ok" and x["obs"]["status"] >= 500]
    if r5:
        vlib.log("[note] %d invalid lines were rejected with a 5xx status instead of 4xx, e.g. %r -> %d %s" % (
            len(r5), r5[0]["body"], r5[0]["obs"]["status"], r5[0]["obs"]["text"].strip()[:120]))
    return nviol, {k: len(v) for k, v in known.items()}, len(r5)


def run(tier, seed):
    t0 = time.time()
    sx = cf.ThreadPoolExecutor(1)
    fsess = sx.submit(Session)             # the server is built and started while TLC generates
    try:
        cases, scases, stats, mode_a = gen_cases(tier, seed)
        t_tlc = time.time() - t0
        sess = fsess.result()
    except BaseException:
        try:
            fsess.result().stop()
        except BaseException:              # noqa
            pass
        raise
    finally:
        sx.shutdown(wait=False)
    summary = replay_cases(cases, scases, seed, tier, 250 if tier == "quick" else 3000, sess=sess)
    for f in mode_a:
        f.result()                         # Mode A must pass (vlib.Infra otherwise)
    t_modea = time.time() - t0
    if "crash" in summary:
        cr = summary["crash"]
        panic = [ln for ln in cr["log"].splitlines() if ln.startswith("panic:") or "fatal error" in ln][:2]
        path = vlib.save_replay(PROP, {"kind": "crash", "seed": seed, "requests": cr["requests"], "panic": panic})
        print("VIOLATION property=%s replay=%s" % (PROP, path))
        vlib.log("  the ts-server process dies on the request sequence %r (%s); reproduced on a fresh server" % (
            [b for _, b, _ in cr["requests"]], "; ".join(panic) or "see the log"))
        vlib.log(cr["log"][-1500:])
        vlib.write_evidence(PROP, tier, seed, "model_checking", {
            "states": stats["exh"]["distinct"], "transitions": stats["exh"]["generated"], "exhaustive": True,
            "traces_validated_against_impl": 1, "samples": [{"requests": [b for _, b, _ in cr["requests"]], "expected": "answered"}],
            "evaluations": 1, "distinct_nontrivial": 1, "rule": "the replay stopped at a request sequence that kills the server", "tlc": stats},
            time.time() - t0, 1, ["the run ends at the first reproduced server crash"])
        return 1
    nviol, known, r5 = report(summary, seed)
    live, batches, sccs = summary["live"], summary["batches"], summary["sccs"]
    nreq = sum(len(x["reqs"]) for x in sccs)
    nconf = sum(1 for x in sccs if any(r["st"] != 204 for r in x["case"]["reqs"]))
    acc = [x for x in live if x["exp"]["kind"] == "Accept"]
    distinct = len({json.dumps(c["line"]) + c.get("prec", "") for c in cases})
    cov = {
        "states": stats["exh"]["distinct"], "transitions": stats["exh"]["generated"], "exhaustive": True,
        "traces_validated_against_impl": len(live) + len(batches) + len(sccs),
        "samples": [{"line": x["case"]["line"], "text": x["body"], "expected": x["case"]["exp"]["kind"]} for x in (live[:1] + acc[-1:])]
                   + [{"requests": [r["body"] for r in x["reqs"]], "expected_replies": [[r["st"], r["dropped"]] for r in x["case"]["reqs"]],
                       "expected_cells": len(x["case"]["view"])} for x in [y for y in sccs if any(r["st"] != 204 for r in y["case"]["reqs"])][:1]],
        "evaluations": len(live) + len(batches) + len(sccs),
        "distinct_nontrivial": distinct + len({json.dumps(c["reqs"], sort_keys=True) for c in scases}),
        "rule": "one evaluation = one concrete line (or batch) posted to /write of the real server and read back; distinct = distinct "
                "class sequences (with precision) of LineProtocol.tla; every one decodes to a point or to Reject in the specification; "
                "schema layer: one evaluation = one request sequence for one measurement (LineSchema.tla), every reply and every stored "
                "cell compared; distinct = distinct abstract request sequences",
        "schema": {"states": sum(stats[k]["distinct"] for k in stats if k.startswith("s_exh")),
                   "transitions": sum(stats[k]["generated"] for k in stats if k.startswith("s_exh")),
                   "sequences": len(sccs), "requests": nreq, "sequences_with_partial_write": nconf,
                   "cells_expected": sum(len(x["case"]["view"]) for x in sccs),
                   "by_source": {k: sum(1 for x in sccs if x["case"].get("src") == k) for k in [p[0] for p in S_PLAN] + ["s_sim"]},
                   "as_implemented_fired": sum(1 for x in sccs if x["case"]["preds"])},
        "tlc": stats, "lines_expected_accept": len(acc), "lines_expected_reject": len(live) - len(acc),
        "lines_stored_and_compared": sum(1 for x in acc if x["obs"]["stored"] is not None),
        "batches": len(batches), "batch_shapes": sorted({b["shape"] for b in batches}),
        "batch_neighbours_dropped_with_4xx": sum(1 for b in batches if b["status"] >= 400 and any(m["valid"] and m["obs"]["stored"] is None for m in b["members"])),
        "known_finding_cases": known, "rejected_with_5xx": r5, "skipped_nonunique_measurement": summary["skipped"],
        "by_source": {k: sum(1 for x in live if x["case"].get("src") == k) for k in ("struct", "values", "ts", "tags", "esc", "sim")},
        "wall_tlc_s": round(t_tlc, 1), "wall_lines_s": round(summary["t_single"], 1), "wall_batches_s": round(summary["t_batch"], 1),
        "wall_schema_s": round(summary["t_schema"], 1), "wall_mode_a_done_s": round(t_modea, 1),
    }
    vlib.write_evidence(PROP, tier, seed, "model_checking", cov, time.time() - t0, nviol, [
        "TLC bounds as in the cfg files named under coverage.tlc; quick tier replays a seeded sample of the exported lines",
        "per character class, not per code point: every class occurrence gets one of several concrete texts drawn from VERIF_SEED",
        "single-node ts-server over HTTP (/write, /query with epoch=ns); new series judged after the index flush (sentinel polled once)",
        "tags `\\\\` in key positions decode to one backslash (VictoriaMetrics/openGemini rule), measurement names may not contain , or \\\\",
        "a batch answered 4xx may or may not store its valid lines (the statement does not say); an acknowledged batch must store them all",
        "schema layer: a field whose type conflicts with the measurement's schema is dropped, the other fields of the line and the other "
        "lines of the request are stored, the request is answered 400 partial write (openGemini's rule; InfluxDB drops the point); "
        "a tag named as an existing field drops the line (design decision, F-C06-9); tag and field names of one line do not overlap; "
        "two shard groups; one measurement per sequence; precision ns",
    ])
    vlib.log("[c06] %d lines (%d expected valid), %d batches, %d request sequences (%d requests, %d with a partial write), tlc %.0fs, "
             "lines %.0fs, batches %.0fs, sequences %.0fs, known %s, violations %d" % (
                 len(live), len(acc), len(batches), len(sccs), nreq, nconf, t_tlc, summary["t_single"], summary["t_batch"],
                 summary["t_schema"], known, nviol))
    return 1 if nviol else 0


def replay(path, seed):
    obj = json.load(open(path))
    open_ids = {f["id"] for f in vlib.load_known(PROP)}
    if obj["kind"] == "crash":
        culprit, tail = confirm_crash([[tuple(r) for r in obj["requests"]]])
        if culprit:
            print("VIOLATION property=%s replay=%s" % (PROP, path))
            vlib.log("the ts-server process dies on %r\n%s" % ([b for _, b, _ in culprit], tail[-1500:]))
            return 1
        print("replay passes")
        return 0
    sess = Session(threads=4)
    try:
        if obj["kind"] == "line":
            old = obj["cc"]
            cc = concretise(old["case"], old["id"], obj.get("seed", seed), rid=old.get("rid"))
            cc["db"] = "c06"
            observe_all(sess, [cc])
            v, ids, det = judge(cc, cc["obs"], open_ids)
            vlib.log("line %r precision=%r -> %d %s; stored %s" % (cc["body"], cc["prec"], cc["obs"]["status"], cc["obs"]["text"].strip()[:200],
                                                                 json.dumps(cc["obs"]["stored"])[:400]))
        elif obj["kind"] == "batch":
            members = []
            for m in obj["members"]:
                mm = concretise(m["case"], m["id"], obj.get("seed", seed), rid=m.get("rid"))
                mm["valid"] = m["valid"]
                members.append(mm)
            b = {"id": "b0", "shape": obj["shape"], "members": members, "prec": obj["prec"], "body": obj["body"]}
            run_batches(sess, [b])
            v, ids, det = judge_batch(b, open_ids)
            vlib.log("batch %r -> %d %s" % (b["body"], b["status"], b["text"].strip()[:200]))
        elif obj["kind"] == "schema":
            cc = s_concretise(obj["case"], obj["id"], obj.get("seed", seed))
            s_replay(sess, [cc], open_ids)
            v, ids, det = cc["verdict"], cc["findings"], cc["detail"]
            vlib.log("requests %r -> %r; stored %s" % ([r["body"] for r in cc["reqs"]], [(st, txt.strip()[:160]) for st, txt in cc["obs"]["replies"]],
                                                      json.dumps(cc["obs"]["stored"], ensure_ascii=False)[:600]))
        else:
            print("replay of kind %r needs the whole run" % obj["kind"])
            return 2
    finally:
        sess.stop()
    if v == "bad":
        print("VIOLATION property=%s replay=%s" % (PROP, path))
        vlib.log(det)
        return 1
    if v == "known":
        print("KNOWN-FINDING: property=%s %s %s" % (PROP, ",".join(ids), det[:300]))
    print("replay passes")
    return 0


SEEDS = ["accept_no_field", "unescape_drops_backslash", "reject_recovers", "bool_T_false", "empty_tag_skipped",
         "tagval_equals_literal", "quote_scan_key", "int_via_float64", "batch_last_line_decides",
         "fsuffix_unvalidated", "quote_scan", "float_fastfloat", "ts_mult_wraps"]


S_SEEDS = ["conflict_drop_shifts_indexes", "conflict_value_stored_reinterpreted", "valid_field_dropped_with_conflict",
           "conflict_drops_line", "batch_conflict_rejects_other_lines", "schema_retyped_by_conflict", "overwrite_keeps_old_value",
           "overwrite_replaces_row", "conflict_acknowledged", "tag_shadowed_by_field", "stale_endtime_conflict_drops_line"]


def selftest(seed):
    """every mutation seed / as-implemented deviation put into the DESIGN automaton must make TLC report a counterexample"""
    missed = []
    for dv in SEEDS:
        r = vlib.run_tlc("LineProtocolMC", "LineProtocol.dev.%s.cfg" % dv, timeout=900)
        hit = r["violated"] or (r["error"] if r["error"] and "BatchOK" in r["error"] else None)
        print("seed %-28s -> %s" % (dv, hit or "NOT CAUGHT"))
        if not hit:
            missed.append(dv)
    for dv in S_SEEDS:
        r = vlib.run_tlc("LineSchemaMC", "LineSchema.dev.%s.cfg" % dv, timeout=900, workers=4)
        print("seed %-36s -> %s" % (dv, r["violated"] or "NOT CAUGHT"))
        if not r["violated"]:
            missed.append(dv)
    return 1 if missed else 0
