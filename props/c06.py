"""C06 - what is written through the line protocol is exactly what queries return.
Mode A: TLC exhaustively checks specs/LineProtocol.tla (character-class automaton of the line protocol:
        AcceptHasField, NoUnescapedSeparator, Conservation, TagsComplete, ValueFaithful, RejectAbsorbing, ...).
Mode B: TLC enumerates every class sequence up to a bound (+ seeded simulation of longer lines); every
        sequence is concretised (several texts per class, from VERIF_SEED), posted to /write of ONE real
        ts-server into its own fresh measurement and read back with select * (epoch=ns): the stored point must
        be exactly the decoded point of the specification, or the line must be rejected with 4xx and store
        nothing. Batches mix valid and invalid lines.
Divergences are attributed to an open finding of known_findings.json only if the real result equals the
prediction of the finding's deviation model (the as-implemented automata of the spec + the arithmetic below)."""
import concurrent.futures as cf
import json, math, os, random, re, struct, sys, threading, time
import vlib, vserver

PROP = "C06"
CHARS = {"P", "U", "C", "S", "E", "Q", "B"}
ONE = {"C": ",", "S": " ", "E": "=", "Q": '"', "B": "\\"}
MULT = {"": 1, "ns": 1, "n": 1, "u": 10**3, "us": 10**3, "ms": 10**6, "s": 10**9, "m": 60 * 10**9, "h": 3600 * 10**9}
WEEK = 7 * 86400 * 10**9
I64MAX, I64MIN = 2**63 - 1, -2**63
FINDING_OF = {  # deviation name of the spec -> finding id
    "int_via_float64": "F-C06-1", "float_fastfloat": "F-C06-2", "ts_mult_wraps": "F-C06-3",
    "fsuffix_unvalidated": "F-C06-4", "quote_scan": "F-C06-5", "batch_last_line_decides": "F-C06-6",
    "empty_tag_skipped": "F-C06-7", "tagval_equals_literal": "F-C06-7",
}
IMPL_DEVS = ["empty_tag_skipped", "tagval_equals_literal", "fsuffix_unvalidated", "quote_scan", "int_via_float64",
             "float_fastfloat", "ts_mult_wraps"]

# ------------------------------------------------------------------------------------------------
# deviation-model arithmetic


def go_int64_of_float(f):
    """int64(f) as the amd64 code Go emits computes it (CVTTSD2SQ): out of range -> MinInt64."""
    if f != f or f >= 2.0**63 or f < -2.0**63:
        return I64MIN
    return int(f)


def int_via_float64(v):
    """F-C06-1: influx.Field.NumValue is a float64; record.AppendFieldsToRecord converts back with int64()."""
    return go_int64_of_float(float(v))


_POW10 = [float("1e%d" % i) for i in range(0, 19)]


def _pow10(e):
    if e < -323:
        return 0.0
    if e > 308:
        return math.inf
    return float("1e%d" % e)


def fastfloat_best_effort(s):
    """F-C06-2/4: port of github.com/valyala/fastjson@v1.6.4/fastfloat.ParseBestEffort."""
    if len(s) == 0:
        return 0.0
    i = 0
    minus = s[0] == "-"
    if minus:
        i += 1
        if i >= len(s):
            return 0.0
    if s[i] == "." and (i + 1 >= len(s) or not s[i + 1].isdigit() or not s[i + 1].isascii()):
        return 0.0
    d = 0
    j = i
    while i < len(s):
        if "0" <= s[i] <= "9":
            d = d * 10 + ord(s[i]) - 48
            i += 1
            if i > 18:
                try:
                    f = float(s.replace("_", "x"))
                except ValueError:
                    return 0.0
                return f
            continue
        break
    if i <= j and s[i] != ".":
        t = s[i:]
        if t.startswith("+"):
            t = t[1:]
        if t.lower() in ("inf", "infinity"):
            return -math.inf if minus else math.inf
        if t.lower() == "nan":
            return math.nan
        return 0.0
    f = float(d)
    if i >= len(s):
        return -f if minus else f
    if s[i] == ".":
        i += 1
        if i >= len(s):
            return f      # (sign dropped: as the Go code does)
        k = i
        while i < len(s):
            if "0" <= s[i] <= "9":
                d = d * 10 + ord(s[i]) - 48
                i += 1
                if i - j >= len(_POW10):
                    try:
                        return float(s.replace("_", "x"))
                    except ValueError:
                        return 0.0
                continue
            break
        if i < k:
            return 0.0
        f = float(d) / _POW10[i - k]
        if i >= len(s):
            return -f if minus else f
    if s[i] in "eE":
        i += 1
        if i >= len(s):
            return 0.0
        exp_minus = False
        if s[i] in "+-":
            exp_minus = s[i] == "-"
            i += 1
            if i >= len(s):
                return 0.0
        e = 0
        j2 = i
        while i < len(s):
            if "0" <= s[i] <= "9":
                e = e * 10 + ord(s[i]) - 48
                i += 1
                if e > 300:
                    try:
                        return float(s.replace("_", "x"))
                    except ValueError:
                        return 0.0
                continue
            break
        if i <= j2:
            return 0.0
        if exp_minus:
            e = -e
        f *= _pow10(e)
        if i >= len(s):
            return -f if minus else f
    return 0.0


def wrap64(v):
    v &= (1 << 64) - 1
    return v - (1 << 64) if v >= (1 << 63) else v


def fbits(f):
    return struct.pack(">d", f)


# ------------------------------------------------------------------------------------------------
# concretisation of classes

B36 = "0123456789abcdefghijklmnopqrstuvwxyz"
P_FIRST = "abcdghjklmopqrsvwxyzABCDGHJKLMOPQRSVWXYZ_"
P_LAST = "abcdeghjklmnopqrstvwxyzABCDEGHJKLMNOPQRSTVWXYZ0123456789_"
P_PUNCT = ".-:@!$%&()*+<>?^|~[]{}'`#/;"
U_ALPHA = "éüßñøæçÅλπΩжЯ日本語中文한국αβ😀🚀𝄞"


def b36(n):
    s = ""
    while True:
        s = B36[n % 36] + s
        n //= 36
        if n == 0:
            return s


def plain_text(rnd, cid, pos, in_mst):
    s = rnd.choice(P_FIRST) + b36(cid)           # lower case digits; the separator is never one
    p = rnd.choice(P_PUNCT) if rnd.random() < 0.6 else rnd.choice("GHJKLMNOPQRSTVWXYZ")
    if in_mst and p in "/;":              # influx/meta/validator.go: not allowed in measurement names
        p = "."
    if pos == 1 and p == "#" and False:
        p = "."
    return s + p + b36(pos) + rnd.choice(P_LAST)


def unicode_text(rnd, cid, pos):
    n = cid * 64 + pos
    s = ""
    while True:
        s = U_ALPHA[n % len(U_ALPHA)] + s
        n //= len(U_ALPHA)
        if n == 0:
            break
    return rnd.choice(U_ALPHA) + s


def _digits(rnd, n, first_nonzero=True):
    s = "".join(rnd.choice("0123456789") for _ in range(n))
    if first_nonzero and s[0] == "0":
        s = rnd.choice("123456789") + s[1:]
    return s


def value_text(rnd, tok):
    r = rnd.random()
    if tok == "I_SMALL":
        return rnd.choice([str(rnd.randint(1, 10**6)), "1", "007", str(rnd.randint(10**6, 2**53 - 1))]) + "i"
    if tok == "I_NEG":
        return "-" + rnd.choice([str(rnd.randint(1, 10**6)), "1", str(rnd.randint(10**6, 2**53 - 1))]) + "i"
    if tok == "I_ZERO":
        return rnd.choice(["0i", "-0i", "000i"])
    if tok == "I_2P53":
        return rnd.choice(["9007199254740992i", "-9007199254740992i"])
    if tok == "I_2P53P1":
        return rnd.choice(["9007199254740993i", "-9007199254740993i", "9007199254740995i"])
    if tok == "I_BIG":
        v = rnd.choice([rnd.randint(2**53 + 2, 2**63 - 1025), rnd.randint(2**63 - 1024, 2**63 - 2),
                        rnd.randint(2**53 + 2, 2**60) | 1, 2**62 + 1, 2**63 - 513, 2**63 - 512])
        return ("-" if r < 0.4 else "") + str(v) + "i"
    if tok == "I_MAX":
        return "9223372036854775807i"
    if tok == "I_MIN":
        return "-9223372036854775808i"
    if tok == "I_OVERFLOW":
        return rnd.choice(["9223372036854775808i", "18446744073709551616i", _digits(rnd, 25) + "i"])
    if tok == "I_UNDERFLOW":
        return rnd.choice(["-9223372036854775809i", "-" + _digits(rnd, 22) + "i"])
    if tok == "I_JUNK":
        return rnd.choice(["1.0i", "1e3i", "i", "--1i", "1_000i", "0x1Fi", "1.i", "-i", "12ai"])
    if tok == "F_SIMPLE":
        return "%d.%s" % (rnd.randint(0, 99999), _digits(rnd, rnd.randint(1, 8), False))
    if tok == "F_NEG":
        return "-%d.%s" % (rnd.randint(0, 999), _digits(rnd, rnd.randint(1, 6), False))
    if tok == "F_INT":
        return rnd.choice([str(rnd.randint(0, 10**6)), "0", "42", _digits(rnd, 15), "-" + _digits(rnd, 9), "0005"])
    if tok == "F_INTEGRAL":
        return rnd.choice(["2.0", "100.00", "-7.0", "%d.0" % rnd.randint(0, 10**9), "0.0"])
    if tok == "F_LEADDOT":
        return rnd.choice([".5", "-.25", "." + _digits(rnd, 5, False)])
    if tok == "F_TRAILDOT":
        return rnd.choice(["5.", "-12.", _digits(rnd, 4) + "."])
    if tok == "F_NEGZERO":
        return rnd.choice(["-0.0", "-0", "-0e0", "-0.000", "-.0"])
    if tok == "F_EXP":
        return "%s%d.%s%s%s%d" % ("-" if r < 0.2 else "", rnd.randint(0, 9), _digits(rnd, rnd.randint(1, 4), False),
                                 rnd.choice("eE"), rnd.choice(["", "+", "-", "-"]), rnd.choice([rnd.randint(0, 22), rnd.randint(0, 300)]))
    if tok == "F_BIGMANT":
        return rnd.choice(["0." + _digits(rnd, rnd.randint(17, 25), False), _digits(rnd, 17) + ".0", _digits(rnd, 30),
                           "%s.%s" % (_digits(rnd, 9), _digits(rnd, 9, False)), "9007199254740993.0", "1." + _digits(rnd, 18, False)])
    if tok == "F_EXTREME":
        return rnd.choice(["1.7976931348623157e308", "4.9e-324", "5e-324", "2.2250738585072014e-308", "1e-320", "1e308",
                           "2.2250738585072011e-308", "1e-400", "123456789e-330"])
    if tok == "F_PLUS":
        return rnd.choice(["+1.5", "+3", "+.5", "+1e2", "+%d.%s" % (rnd.randint(0, 99), _digits(rnd, 2, False))])
    if tok == "F_FSUFFIX":
        return rnd.choice(["1.5f", "38f", "-2.25f", "0f", "+7f", "1e2f", "%d.%sf" % (rnd.randint(0, 99), _digits(rnd, 3, False))])
    if tok == "F_OVERFLOW":
        return rnd.choice(["1e400", "-1e999", "1" + "0" * 400, "1.8e308"])
    if tok == "F_SPECIAL":
        return rnd.choice(["NaN", "nan", "Inf", "-Inf", "+Inf", "inf", "infinity", "-nan"])
    if tok.startswith("B_") and tok != "B_BAD":
        return tok[2:]
    if tok == "B_BAD":
        return rnd.choice(["tRUE", "yes", "no", "tru", "TrUe", "fALSE", "tt", "on", "FALSe"])
    if tok == "U_SUFFIX":
        return rnd.choice(["1u", "42u", "0u", "18446744073709551615u"])
    if tok == "N_JUNK":
        return rnd.choice(["1.2.3", "1e", "0x10", "--1", "1-", "e5", "1e5.5", ".", "-", "+", "1e+", "..1", "1a", "١٢"])
    if tok == "N_JUNKF":
        return rnd.choice(["xyzf", "1.2.3f", "truef", "Inff", "nanf", "-f", "--1f", "1e5.5f", "-inff", "0x1f", "1ef", ".f",
                           "12abf"])
    raise vlib.Infra("unknown value token " + tok)


def ts_text(rnd, tok, prec):
    mult = MULT[prec]
    if tok == "TS_NS":
        hi = max(1, (WEEK - 1) // mult - 1)
        return str(rnd.choice([1, rnd.randint(1, hi), rnd.randint(1, max(1, hi // 1000)), hi]))
    if tok == "TS_ZERO":
        return rnd.choice(["0", "00"])
    if tok == "TS_MAX":
        return "9223372036854775806"
    if tok == "TS_WRAP":          # t*mult overflows int64 and wraps to a small positive number
        k = rnd.choice([1, 1, 2, 3])
        t = -((-(1 << 64) * k) // mult)
        return str(t + rnd.randint(0, 3))
    if tok == "TS_OVER":
        return "9223372036854775807"
    if tok == "TS_OVERFLOW":
        return rnd.choice(["9223372036854775808", "99999999999999999999", _digits(rnd, 30)])
    if tok == "TS_NEG":
        return rnd.choice(["-5", "-1", "-%d" % rnd.randint(1, 10**9)])
    if tok == "TS_JUNK":
        return rnd.choice(["12a", "1.5", "1e3", "0x10", "2000-01-01T00:00:00Z", "1_000", "+5", "5i", "--5", "٣"])
    raise vlib.Infra("unknown ts token " + tok)


# ------------------------------------------------------------------------------------------------
# a TLC case -> concrete line + concrete expected points


def sub_rng(seed, cid):
    return random.Random((seed * 1000003 + cid) * 2654435761 % (1 << 61))


def concretise(case, cid, seed):
    """case = {"line": [classes], "prec": p, "exp": outcome, "imp": [{"dev": [...], "out": outcome}]}"""
    rnd = sub_rng(seed, cid)
    line = case["line"]
    prec = case.get("prec", "")
    mst_pos = set(case["exp"]["mst"])
    if not mst_pos:                      # still inside the measurement: everything before the first separator
        for i, c in enumerate(line, 1):
            if c in ("C", "S") and i > 1 and line[i - 2] != "B" and mst_pos:
                break
            mst_pos.add(i)
    texts = [None]
    for i, c in enumerate(line, 1):
        if c == "P":
            texts.append(plain_text(rnd, cid, i, i in mst_pos))
        elif c == "U":
            texts.append(unicode_text(rnd, cid, i))
        elif c in ONE:
            texts.append(ONE[c])
        elif c.startswith("TS_"):
            texts.append(ts_text(rnd, c, prec))
        else:
            texts.append(value_text(rnd, c))
    body = "".join(texts[1:])
    cc = {"id": cid, "case": case, "texts": texts, "body": body, "prec": prec}
    cc["exp"] = concrete_outcome(case["exp"], texts, prec, line)
    cc["imp"] = [{"dev": x["dev"], "out": concrete_outcome(x["out"], texts, prec, line)} for x in case.get("imp", [])]
    return cc


def join(texts, idxs):
    return "".join(texts[i] for i in idxs)


def concrete_outcome(out, texts, prec, line):
    """abstract outcome -> concrete point: mst, tags {k: v}, fields {k: (type, python value)}, ts (int | "now")"""
    o = {"kind": out["kind"], "why": out.get("why", ""), "amb": list(out.get("amb", [])),
         "mst": join(texts, out["mst"]) if out["mst"] else None}
    if out["kind"] != "Accept":
        return o
    o["tags"] = {join(texts, t["k"]): join(texts, t["v"]) for t in out["tags"]}
    fields, dup = {}, set()
    for f in out["fields"]:
        k = join(texts, f["k"])
        if k in fields:
            dup.add(k)
        if f["t"] == "string":
            fields[k] = ("string", join(texts, f["s"]))
            continue
        pos = f["k"][-1] + 2                  # key, "=", value token
        if line[pos - 1] != f["tok"]:
            raise vlib.Infra("token position mismatch: %r %r" % (line, f))
        txt = texts[pos]
        if f["t"] == "int":
            v = int(txt[:-1])
            if f["via"] == "f64":
                v = int_via_float64(v)
            fields[k] = ("integer", v)
        elif f["t"] == "float":
            num = txt[:-1] if txt.endswith("f") else txt
            v = fastfloat_best_effort(num) if f["via"] == "ff" else float(num)
            fields[k] = ("float", v)
        elif f["t"] == "bool":
            fields[k] = ("boolean", f["val"] == "true")
        else:
            raise vlib.Infra("unknown field type %r" % (f,))
    o["fields"] = fields
    o["dupfields"] = sorted(dup)
    tok = out["ts"]
    if tok == "TS_MISSING":
        o["ts"] = "now"
    else:
        pos = [i for i, c in enumerate(line, 1) if c == tok]
        if len(pos) != 1:
            raise vlib.Infra("timestamp token not unique: %r" % (line,))
        v = int(texts[pos[0]]) * MULT[prec]
        o["ts"] = wrap64(v) if out.get("tsvia") == "wrap" else v
    return o


# ------------------------------------------------------------------------------------------------
# the server side: one ts-server per run


class Num(str):
    """a JSON number token kept as its text"""


def parse_json_exact(body):
    return json.loads(body, parse_int=Num, parse_float=Num)


def qident(name):
    return '"' + name.replace("\\", "\\\\").replace('"', '\\"').replace("\n", "\\n") + '"'


class Session:
    NLANES = 3            # extra databases for measurement names that carry no case id (made of " = only)

    def __init__(self, threads=48):
        self.srv = vserver.Server(name="c06", start=False)
        try:
            self.srv.start(wait=180)
        except BaseException:
            self.srv.stop()
            raise
        self.threads = threads
        self.dbs = ["c06"] + ["c06l%d" % i for i in range(1, self.NLANES + 1)]
        for db in self.dbs:
            st, r = self.srv.query("create database " + db, method="POST")
            if st != 200 or "error" in json.dumps(r):
                raise vlib.Infra("create database failed: %r" % (r,))
        # create the shard groups the cases fall into (meta cache lag gives 500 'shard group not found' at first)
        for db in self.dbs:
            for ln, pr in (("c06warm v=1i 1000", None), ("c06warm v=1i", None), ("c06warm v=1i 9223372036854775806", None)):
                self.post_retry(db, ln, pr, tries=40)

    def stop(self):
        self.srv.stop()

    def post_retry(self, db, body, prec, tries=8):
        for k in range(tries):
            t0 = time.time_ns()
            try:
                st, txt = self.srv.write(db, body.encode("utf-8"), precision=prec or None)
            except Exception as ex:            # noqa
                if not self.srv.alive():
                    raise vlib.Infra("ts-server died during a write:\n" + self.srv.tail_log())
                st, txt = 599, "client error: %r" % (ex,)
            t1 = time.time_ns()
            if st >= 500 and ("shard group not found" in txt or st == 599 or "timeout" in txt):
                time.sleep(0.25)
                continue
            break
        return st, txt, t0, t1

    def post_all(self, items):
        """items: list of (key, db, body, prec) -> {key: (status, text, t0, t1)}"""
        out = {}

        def work(it):
            return it[0], self.post_retry(it[1], it[2], it[3])

        with cf.ThreadPoolExecutor(self.threads) as ex:
            for k, r in ex.map(work, items):
                out[k] = r
        return out

    def wait_visible(self, timeout=60):
        """new series appear in queries after the index flush: write a sentinel last and poll for it"""
        name = "c06sentinel%d" % time.time_ns()
        for db in self.dbs:
            self.post_retry(db, name + ",k=v v=1i 1000", None, tries=40)
        t0 = time.time()
        for db in self.dbs:
            while True:
                st, body = self.srv.http("GET", "/query", {"q": "select * from " + name, "db": db, "epoch": "ns"}, timeout=120)
                if st == 200 and '"values"' in body:
                    break
                if time.time() - t0 > timeout:
                    raise vlib.Infra("sentinel measurement never became visible: " + body[:300])
                time.sleep(0.2)
        time.sleep(0.3)
        return name

    def raw_query(self, db, q):
        try:
            return self.srv.http("GET", "/query", {"q": q, "db": db, "epoch": "ns"}, timeout=180)
        except Exception as ex:                # noqa
            if not self.srv.alive():
                raise vlib.Infra("ts-server died during a query:\n" + self.srv.tail_log())
            raise vlib.Infra("query failed: %r" % (ex,))

    def read_points(self, wanted):
        """wanted: list of (key, db, mst) -> {key: stored}; stored = None (nothing) | {"error": txt} |
        {"series": [{"tags": {...}, "columns": [...], "values": [[...]]}]}"""
        out = {}
        chunks = {}
        for key, db, mst in wanted:
            chunks.setdefault(db, []).append((key, mst))
        jobs = []
        for db, lst in chunks.items():
            for i in range(0, len(lst), 60):
                jobs.append((db, lst[i:i + 60]))

        def one(db, key, mst):
            st, body = self.raw_query(db, "select * from %s group by *" % qident(mst))
            return key, self._decode_stmt(st, body, 0)

        def work(job):
            db, lst = job
            q = ";".join("select * from %s group by *" % qident(m) for _, m in lst)
            st, body = self.raw_query(db, q)
            res = []
            try:
                js = parse_json_exact(body)
                rs = js.get("results")
                if st != 200 or rs is None or len(rs) != len(lst):
                    raise ValueError("whole-query failure")
                for (key, _), r in zip(lst, rs):
                    res.append((key, self._decode_result(r)))
            except ValueError:
                res = [one(db, key, mst) for key, mst in lst]      # one statement poisons the whole answer: ask one by one
            return res

        with cf.ThreadPoolExecutor(min(16, self.threads)) as ex:
            for res in ex.map(work, jobs):
                for key, v in res:
                    out[key] = v
        return out

    def _decode_stmt(self, st, body, idx):
        try:
            js = parse_json_exact(body)
        except ValueError:
            return {"error": "unparsable answer (status %d): %s" % (st, body[:300])}
        if "results" not in js:
            return {"error": "status %d: %s" % (st, str(js.get("error", body))[:300])}
        return self._decode_result(js["results"][idx])

    @staticmethod
    def _decode_result(r):
        if "error" in r:
            if "measurement not found" in r["error"]:
                return None
            return {"error": r["error"]}
        if not r.get("series"):
            return None
        return {"series": r["series"]}

    def measurements(self, db):
        st, body = self.raw_query(db, "show measurements")
        js = parse_json_exact(body)
        names = set()
        for r in js.get("results", []):
            for s in r.get("series", []) or []:
                for v in s["values"]:
                    names.add(str(v[0]))
        return names

    def field_types(self, db):
        st, body = self.raw_query(db, "show field keys")
        js = parse_json_exact(body)
        out = {}
        for r in js.get("results", []):
            for s in r.get("series", []) or []:
                out[str(s["name"])] = {str(v[0]): str(v[1]) for v in s["values"]}
        return out


# ------------------------------------------------------------------------------------------------
# comparison of a real observation with a concrete outcome


def _same_float(tok, want):
    try:
        got = float(tok)
    except ValueError:
        return False
    return fbits(got) == fbits(want)


def match(obs, out):
    """obs = {"status", "text", "t0", "t1", "stored", "ftypes"}; out = concrete outcome. -> (ok, detail)"""
    st = obs["status"]
    stored = obs.get("stored")
    if out["kind"] != "Accept":
        if 200 <= st < 300:
            return False, "invalid line acknowledged with %d" % st
        if stored is not None:
            return False, "line answered %d but something is stored: %s" % (st, json.dumps(stored)[:300])
        return True, ""
    if not (200 <= st < 300):
        return False, "valid line answered %d %s" % (st, obs["text"].strip()[:200])
    poisoned = any(t == "float" and (v != v or v in (math.inf, -math.inf)) for t, v in out["fields"].values())
    if poisoned:                       # prediction of a deviation model only: the stored NaN/Inf breaks the JSON encoder
        if isinstance(stored, dict) and "unsupported value" in stored.get("error", ""):
            return True, ""
        return False, "expected the NaN/Inf answer failure, got %s" % (json.dumps(stored)[:300],)
    if stored is None:
        return False, "acknowledged (%d) but nothing is stored" % st
    if "error" in stored:
        return False, "query error: " + stored["error"][:300]
    ser = stored["series"]
    if len(ser) != 1 or len(ser[0].get("values", [])) != 1:
        return False, "expected one series with one row, got %s" % (json.dumps(ser)[:400],)
    s = ser[0]
    if str(s.get("name")) != out["mst"]:
        return False, "measurement %r != %r" % (s.get("name"), out["mst"])
    tags = {str(k): (str(v) if not isinstance(v, Num) else v) for k, v in (s.get("tags") or {}).items()}
    if tags != out["tags"] or any(isinstance(v, Num) for v in tags.values()):
        return False, "tags %r != %r" % (tags, out["tags"])
    cols = [str(c) for c in s["columns"]]
    row = s["values"][0]
    if cols[0] != "time" or sorted(cols[1:]) != sorted(out["fields"]):
        return False, "columns %r != time + %r" % (cols, sorted(out["fields"]))
    for c, v in zip(cols[1:], row[1:]):
        typ, want = out["fields"][c]
        if c in out.get("dupfields", ()):
            continue                                # the same key twice in one line: which value wins is not specified
        ft = (obs.get("ftypes") or {}).get(c)
        if ft != typ:
            return False, "field %r has type %r, want %r" % (c, ft, typ)
        if typ == "integer":
            if not isinstance(v, Num) or str(v) != str(want):
                return False, "integer field %r: read back %s, written %s" % (c, json.dumps(v), want)
        elif typ == "float":
            if not isinstance(v, Num) or not _same_float(str(v), want):
                return False, "float field %r: read back %s, written %r" % (c, json.dumps(v), want)
        elif typ == "boolean":
            if v is not want:
                return False, "boolean field %r: read back %s, written %r" % (c, json.dumps(v), want)
        elif typ == "string":
            if isinstance(v, Num) or not isinstance(v, str) or v != want:
                return False, "string field %r: read back %s, written %s" % (c, json.dumps(v), json.dumps(want))
    t = row[0]
    if not isinstance(t, Num):
        return False, "time is not a number: %r" % (t,)
    if out["ts"] == "now":
        if not (obs["t0"] - 50_000_000 <= int(t) <= obs["t1"] + 50_000_000):
            return False, "time %s outside the request window [%d, %d]" % (t, obs["t0"], obs["t1"])
    elif str(t) != str(out["ts"]):
        return False, "time read back %s, written %s" % (t, out["ts"])
    return True, ""


REJECT = {"kind": "Reject"}


def judge(cc, obs, open_ids):
    """-> ("ok" | "known" | "bad", finding ids, detail)"""
    ok, det = match(obs, cc["exp"])
    if ok:
        return "ok", [], ""
    if cc["exp"]["kind"] == "Accept" and "quote_in_field_key" in cc["exp"]["amb"]:
        ok2, _ = match(obs, REJECT)       # a quote inside a field key: rejecting is tolerated, a different value is not
        if ok2:
            return "ok", [], "rejected (quote in field key)"
    base = okey(cc["exp"])
    imps = sorted((x for x in cc["imp"] if okey(x["out"]) != base), key=lambda x: len(x["dev"]))
    singles = [x["dev"][0] for x in imps if len(x["dev"]) == 1]
    for x in imps:
        ok2, _ = match(obs, x["out"])
        if ok2:
            devs = x["dev"] if len(x["dev"]) == 1 else singles
            ids = sorted({FINDING_OF[dv] for dv in devs})
            if ids and all(i in open_ids for i in ids):
                return "known", ids, det
            return "bad", ids, det + " (equals the prediction of %s, which is not an open finding)" % (x["dev"],)
    return "bad", [], det


def okey(out):
    """canonical, comparable form of a concrete outcome"""
    if out["kind"] != "Accept":
        return ("Reject",)
    fs = tuple(sorted((k, t, fbits(v) if t == "float" else v) for k, (t, v) in out["fields"].items()))
    return ("Accept", out["mst"], tuple(sorted(out["tags"].items())), fs, out["ts"])


# ------------------------------------------------------------------------------------------------
# generation


def _tlc(cfg, stats, key, timeout=1500, **kw):
    r = vlib.run_tlc("LineProtocolMC", cfg, timeout=timeout, **kw)
    vlib.tlc_must_pass(r, cfg)
    stats[key] = {"cfg": cfg, "generated": r["generated"], "distinct": r["distinct"], "depth": r["depth"],
                  "wall_s": round(r["wall_s"], 1), "cases": len(r["traces"])}
    return r


def gen_cases(tier, seed):
    stats = {}
    _tlc("LineProtocol.exh.%s.cfg" % tier, stats, "exh", timeout=3000)
    rnd = random.Random(seed)
    plan = [("struct", "LineProtocol.bfs.struct.%s.cfg" % tier, 2200), ("values", "LineProtocol.bfs.values.cfg", 1300),
            ("ts", "LineProtocol.bfs.ts.cfg", 500)]
    cases = []
    for key, cfg, nquick in plan:
        r = _tlc(cfg, stats, key, workers=8)
        tr = r["traces"]
        if tier == "quick" and len(tr) > nquick:
            tr = rnd.sample(tr, nquick)
        stats[key]["replayed"] = len(tr)
        cases += [dict(t, src=key) for t in tr]
    nsim = 120 if tier == "quick" else 2500
    r = _tlc("LineProtocol.sim.cfg", stats, "sim", simulate=nsim, depth=40, seed=seed)
    tr = r["traces"]
    nmax = 1000 if tier == "quick" else 30000
    if len(tr) > nmax:
        tr = rnd.sample(tr, nmax)
    stats["sim"]["replayed"] = len(tr)
    cases += [dict(t, src="sim") for t in tr]
    return cases, stats
