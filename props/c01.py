"""C01 — acknowledged writes survive a crash at any moment, with their latest values.
Mode A: TLC checks specs/Wal.tla exhaustively (Durable, WalBeforeAck, RemoveAfterRename) for the design
(Dev = {}) and confirms that each as-implemented deviation (known findings) and each mutation seed is
caught by the invariants. Mode B: TLC-generated client histories are run on a real engine under the
file-system recorder; a crash image is frozen after file-system mutations (all of them in the thorough
tier, plus torn-tail variants and crashes inside recovery), restored, re-opened the way a restarted store
does it, and the recovered contents are compared with the specification's expectation.
Mode C: the recorded file-system event order of every run is validated by TLC against TraceWal.tla."""
import json, os, time
import vlib

PROP = "C01"
TOLERATED = []   # cases whose harness process died with the signature of open finding F-C04-1 (c)
DEVS_MUST_FAIL = {
    '{"rr_from_0"}': "Durable",
    '{"wal_remove_one_by_one"}': "Durable",
    '{"ack_before_wal"}': "WalBeforeAck",
    # removing the log before the rename also un-protects an acknowledged write: with several TLC workers either
    # property may be the first one reported
    '{"remove_wal_before_rename"}': ("RemoveAfterRename", "WalBeforeAck", "Durable"),
}


def mode_a(tier):
    cfg = "Wal.exh.quick.cfg" if tier == "quick" else "Wal.exh.thorough.cfg"
    r = vlib.run_tlc("WalMC", cfg, timeout=3000, coverage=False)
    vlib.tlc_must_pass(r, cfg)
    stats = {"cfg": cfg, "generated": r["generated"], "distinct": r["distinct"], "depth": r["depth"], "wall_s": round(r["wall_s"], 1)}
    base = open(os.path.join(vlib.SPECS, "cfg", "Wal.exh.quick.cfg")).read()
    devs = {}
    tmp = vlib.scratch("c01cfg")
    try:
        for dev, inv in DEVS_MUST_FAIL.items():
            p = os.path.join(tmp, "dev.cfg")
            open(p, "w").write(base.replace("Dev = {}", "Dev = " + dev))
            rr = vlib.run_tlc("WalMC", p, timeout=900)
            if rr["violated"] not in (inv if isinstance(inv, tuple) else (inv,)):
                raise vlib.Infra(f"deviation {dev} should violate {inv} in Wal.tla but TLC says {rr['violated']} / {rr['error']}")
            devs[dev] = rr["violated"]
    finally:
        import shutil
        shutil.rmtree(tmp, ignore_errors=True)
    stats["deviations_caught"] = devs
    # the same design with DROP MEASUREMENT (no resurrection of a dropped measurement by recovery)
    rd = vlib.run_tlc("WalMC", "Wal.exh.drop.cfg", timeout=3000)
    vlib.tlc_must_pass(rd, "Wal.exh.drop.cfg")
    stats["drop"] = {"cfg": "Wal.exh.drop.cfg", "generated": rd["generated"], "distinct": rd["distinct"], "depth": rd["depth"]}
    return stats


def gen_histories(tier, seed):
    nsim = 120 if tier == "quick" else 800
    r = vlib.run_tlc("WalMC", "Wal.sim.cfg", simulate=nsim, depth=80, seed=seed, timeout=1800)
    vlib.tlc_must_pass(r, "Wal.sim.cfg")
    seen, out = set(), []
    for h in r["traces"]:
        k = json.dumps(h)
        if k not in seen and any(s["a"] == "Flush" for s in h):
            seen.add(k)
            out.append(h)
    limit = 56 if tier == "quick" else 800
    out = out[:limit]
    # histories with DROP MEASUREMENT of the measurement that holds cell k3
    nd = 120 if tier == "quick" else 800
    r2 = vlib.run_tlc("WalMC", "Wal.sim.drop.cfg", simulate=nd, depth=90, seed=seed + 7, timeout=1800)
    vlib.tlc_must_pass(r2, "Wal.sim.drop.cfg")
    drops = []
    for h in r2["traces"]:
        k = json.dumps(h)
        if k in seen:
            continue
        seen.add(k)
        ws = [i for i, s_ in enumerate(h) if s_["a"] == "Write" and s_["k"] == "k3"]
        ds = [i for i, s_ in enumerate(h) if s_["a"] == "Drop"]
        if ws and ds and min(ws) < max(ds):
            drops.append(h)
    dl = 16 if tier == "quick" else 300
    out += drops[:dl]
    return out, {"generated": r["generated"] + r2["generated"], "traces": len(r["traces"]) + len(r2["traces"]),
                 "distinct_with_flush": len(out) - len(drops[:dl]), "with_drop": len(drops[:dl])}


TRACE_CFG = """SPECIFICATION TraceSpec
CONSTANTS
  N = %d
  Keys = {"k1", "k2", "k3"}
  MaxW = 12
  MaxFlush = 12
  MaxCrash = 0
  MaxInits = 4
  DropKeys = {}
  MaxDrop = 0
  Dev = {"rr_from_0", "wal_remove_one_by_one"}
INVARIANTS TypeOK WalBeforeAck
PROPERTIES RemoveAfterRename
CONSTRAINT HighWater
POSTCONDITION TraceAccepted
CHECK_DEADLOCK FALSE
"""


def validate_traces(runs, n):
    """Mode C: runs = list of event lists recorded with n WAL partitions. Returns (accepted?, tlc result)."""
    tmp = vlib.scratch("c01trace")
    try:
        tp = os.path.join(tmp, "trace.ndjson")
        with open(tp, "w") as f:
            for ev in runs:
                f.write(json.dumps({"ev": "Reset"}) + "\n")
                for e in ev:
                    f.write(json.dumps(e) + "\n")
        cp = os.path.join(tmp, "TraceWal.cfg")
        open(cp, "w").write(TRACE_CFG % n)
        r = vlib.run_tlc("TraceWal", cp, workers=1, timeout=1200, copy_files=[tp], depth_first=True)
        if r.get("timeout") or r["error"]:
            raise vlib.Infra(f"trace validation did not run: {r['error']}\n" + r["out"][-2000:])
        return (r["violated"] is None), r
    finally:
        import shutil
        shutil.rmtree(tmp, ignore_errors=True)


def mode_c(results):
    """validate the recorded event order of every run; returns (stats, list of rejected results)"""
    stats = {"runs": 0, "events": 0, "tlc_states": 0}
    rejected = []
    by_n = {}
    for r in results:
        if r.get("tev"):
            by_n.setdefault(r["parts"], []).append(r)
    for n, rs in sorted(by_n.items()):
        ok, t = validate_traces([r["tev"] for r in rs], n)
        stats["runs"] += len(rs)
        stats["events"] += sum(len(r["tev"]) for r in rs)
        stats["tlc_states"] += t["distinct"]
        if not ok:   # find the offending run(s)
            for r in rs:
                ok1, t1 = validate_traces([r["tev"]], n)
                if not ok1:
                    r2 = dict(r)
                    r2["ok"] = False
                    r2["detail"] = (f"recorded file-system event order of the write/flush path is not a behaviour of Wal.tla "
                                    f"(TLC: {t1['violated']}; trace matched up to a prefix of {t1['distinct']} states): "
                                    + json.dumps(r["tev"])[:1500])
                    rejected.append(r2)
    return stats, rejected


def replay_cases(cases):
    vh = vlib.build_vh()
    results, errs, tol = vlib.run_vh_parallel(vh, ["replay-wal"], cases, tolerate=vlib.f_c04_1_death)
    TOLERATED.extend(tol)
    if errs:
        raise vlib.Infra(f"harness process failed: {errs[0]}")
    if len(results) + len(tol) != len(cases):
        raise vlib.Infra(f"harness returned {len(results)} results for {len(cases)} cases")
    return results


def run(tier, seed):
    t0 = time.time()
    a = mode_a(tier)
    hists, gstats = gen_histories(tier, seed)
    if not hists:
        raise vlib.Infra("no histories generated")
    cases = [{"id": i, "seed": seed, "hist": h, "thorough": tier == "thorough"} for i, h in enumerate(hists)]
    results = replay_cases(cases)
    infra = [r for r in results if r.get("infra")]
    if infra:
        raise vlib.Infra(f"harness infra error: {infra[0]}")
    byid = {c["id"]: c for c in cases}
    if TOLERATED:
        print(f"KNOWN-FINDING: property={PROP} F-C04-1 the store process died {len(TOLERATED)} times at close with an unbalanced tsspFile reference count "
              f"(negative WaitGroup counter / close blocked in wg.Wait); those cases are not judged")
    bad = [r for r in results if not r["ok"]]
    cstats, rejected = mode_c(results)
    bad += rejected
    open_ids = {f["id"] for f in vlib.load_known(PROP)}
    known = {}
    for r in results:
        for k, n in (r.get("known") or {}).items():
            known.setdefault(k, [0, r.get("known_example", "")])
            known[k][0] += n
    for k in list(known):
        if k not in open_ids:
            bad.append({"id": -1, "ok": False, "detail": f"divergence attributed to {k}, which is not a listed open finding"})
    for k in sorted(known):
        if k in open_ids:
            print(f"KNOWN-FINDING: property={PROP} {k} re-observed at {known[k][0]} crash points, e.g. {known[k][1][:400]}")
    for r in bad[:5]:
        c = dict(byid.get(r["id"], {}))
        if r.get("at"):
            c["only_at"] = [r["at"]]
        path = vlib.save_replay(PROP, {"case": c, "result": {k: v for k, v in r.items() if k not in ("trace", "tev")}, "trace": r.get("trace"), "tev": r.get("tev")})
        print(f"VIOLATION property={PROP} replay={path}")
        vlib.log(r.get("detail", ""))
    # thorough: a listed open finding that can no longer be reproduced means the list is stale
    if tier == "thorough":
        for k in open_ids:
            if k not in known:
                raise vlib.Infra(f"open finding {k} was not re-observed in the thorough tier: known_findings.json must be updated")
    images = sum(r["images"] for r in results)
    cov = {
        "states": a["distinct"] + a["drop"]["distinct"], "transitions": a["generated"] + a["drop"]["generated"],
        "traces_validated_against_impl": len(results),
        "samples": [hists[0], hists[-1]],
        "evaluations": images + sum(r["nested"] + r["torn"] for r in results),
        "distinct_nontrivial": images,
        "rule": "one evaluation = one crash image restored and re-opened (after a file-system mutation of the write/flush path, "
                "plus torn-tail variants of the last log record and images taken inside recovery); distinct_nontrivial = images "
                "at distinct (history, fs event) pairs",
        "histories": len(hists), "crash_images": images,
        "nested_recovery_images": sum(r["nested"] for r in results),
        "torn_tail_images": sum(r["torn"] for r in results),
        "fs_events": sum(r["events"] for r in results),
        "index_inconclusive": sum(r.get("index_inconclusive", 0) for r in results),
        "known_findings_crash_points": {k: v[0] for k, v in known.items()},
        "tlc": {"exhaustive": a, "generator": gstats},
        "trace_validation": cstats,
        "exhaustive": tier == "thorough",
    }
    vlib.write_evidence(PROP, tier, seed, "model_checking", cov, time.time() - t0, len(bad), [
        "process-kill semantics: the directory tree at the crash instant is the image (no loss of un-synced pages)",
        "single sequential client, so acknowledgement order is well defined",
        "series-index image taken by repeated copy until quiescent; images whose index cannot be opened are counted as inconclusive",
        "TLC bounds as in the cfg files named under coverage.tlc",
    ])
    return 1 if bad else 0


def replay(path, seed):
    obj = json.load(open(path))
    res = replay_cases([obj["case"]])
    r = res[0]
    _, rej = mode_c(res)
    if rej:
        r = rej[0]
    if not r["ok"]:
        print(f"VIOLATION property={PROP} replay={path}")
        vlib.log(r["detail"])
        return 1
    print("replay passes")
    return 0
