"""C01 — acknowledged writes survive a crash at any moment, with their latest values.
Mode A: TLC checks specs/Wal.tla exhaustively (Durable - read through the series index -, WalBeforeAck, IndexOrLog,
RemoveAfterRename, IndexBeforeWalRemove) for the design (Dev = {}) and confirms that each as-implemented
deviation (known findings) and each mutation seed is caught by the invariants. Mode B: TLC-generated client
histories (writes - also writes that start while a flush stands at one of its steps -, forced flushes and
automatic flushes started by the shard's own snapshot ticker, drops) are run on a real engine under the
file-system recorder; a crash image is frozen after file-system mutations (all of them in the thorough tier, plus
the durable points of the series index, torn-tail variants and crashes inside recovery) without the harness ever
flushing the series index itself, restored, re-opened the way a restarted store does it, and the recovered
contents are compared with the specification's expectation.
Mode C: the recorded file-system event order of every run (index flushes included) is validated by TLC against
TraceWal.tla."""
import json, os, time
import concurrent.futures as cf
import vlib

PROP = "C01"
if "-Xmx" not in os.environ.get("JAVA_TOOL_OPTIONS", ""):
    # several TLC processes run side by side (deviations, trace validation); the largest model (5 M states,
    # fingerprints off-heap, queue on disk) needs far less than the JVM's default of a quarter of the RAM
    os.environ["JAVA_TOOL_OPTIONS"] = (os.environ.get("JAVA_TOOL_OPTIONS", "") + " -Xmx4g").strip()
TOLERATED = []   # cases whose harness process died with the signature of open finding F-C04-1 (c)
DEVS_MUST_FAIL = {
    '{"rr_from_0"}': "Durable",
    '{"wal_remove_one_by_one"}': "Durable",
    '{"ack_before_wal"}': "WalBeforeAck",
    # removing the log before the rename also un-protects an acknowledged write: with several TLC workers either
    # property may be the first one reported
    '{"remove_wal_before_rename"}': ("RemoveAfterRename", "WalBeforeAck", "Durable", "IndexOrLog", "IndexBeforeWalRemove", "FilesIndexed"),
    # series index: a snapshot started by the ticker skips the synchronous index flush / the index is flushed only
    # after the log files are gone. FilesIndexed breaks at the first rename, the ordering property at the log removal,
    # the reachability invariants follow (a crash is needed for Durable); DEVS_ISOLATED checks the latter on their own
    '{"auto_flush_skips_index"}': ("FilesIndexed", "IndexBeforeWalRemove", "IndexOrLog", "Durable"),
    '{"index_flush_after_wal_remove"}': ("FilesIndexed", "IndexBeforeWalRemove", "IndexOrLog", "Durable"),
}
# the same two seeds must also break, each checked alone: Durable itself (reads go through the index, a crash is needed)
# and the ordering property IndexBeforeWalRemove - neither is vacuous
DEVS_ISOLATED = [(d, inv) for d in ('{"auto_flush_skips_index"}', '{"index_flush_after_wal_remove"}')
                 for inv in ("Durable", "IndexBeforeWalRemove")]


def mode_a(tier):
    cfg = "Wal.exh.quick.cfg" if tier == "quick" else "Wal.exh.thorough.cfg"
    base = open(os.path.join(vlib.SPECS, "cfg", "Wal.exh.quick.cfg")).read()
    tmp = vlib.scratch("c01cfg")
    try:
        jobs = {}   # name -> (cfg path, workers)
        jobs["main"] = (cfg, max(4, vlib.NCPU // 2))
        jobs["drop"] = ("Wal.exh.drop.cfg", 4)
        # DROP MEASUREMENT in the order of the pinned code (open finding F-C01-3) must break Durable
        p = os.path.join(tmp, "devdrop.cfg")
        open(p, "w").write(open(os.path.join(vlib.SPECS, "cfg", "Wal.exh.drop.cfg")).read().replace("Dev = {}", 'Dev = {"drop_files_after_log"}'))
        jobs["dropdev"] = (p, 2)
        for i, dev in enumerate(DEVS_MUST_FAIL):
            p = os.path.join(tmp, f"dev{i}.cfg")
            open(p, "w").write(base.replace("Dev = {}", "Dev = " + dev))
            jobs["dev:" + dev] = (p, 2)
        for i, (dev, inv) in enumerate(DEVS_ISOLATED):
            p = os.path.join(tmp, f"devi{i}.cfg")
            lines = [l for l in base.replace("Dev = {}", "Dev = " + dev).splitlines() if not l.startswith(("PROPERTIES", "INVARIANTS"))]
            lines.insert(-1, "INVARIANTS Durable" if inv == "Durable" else "PROPERTIES " + inv)
            open(p, "w").write("\n".join(lines) + "\n")
            jobs[f"alone:{dev}:{inv}"] = (p, 2)
        # a few JVMs at a time with a bounded heap (the machine is shared): the two design runs first
        with cf.ThreadPoolExecutor(4) as ex:
            futs = {k: ex.submit(vlib.run_tlc, "WalMC", c, workers=w, timeout=3000) for k, (c, w) in jobs.items()}
            res = {k: f.result() for k, f in futs.items()}
    finally:
        import shutil
        shutil.rmtree(tmp, ignore_errors=True)
    r = res["main"]
    vlib.tlc_must_pass(r, cfg)
    stats = {"cfg": cfg, "generated": r["generated"], "distinct": r["distinct"], "depth": r["depth"], "wall_s": round(r["wall_s"], 1)}
    devs = {}
    for dev, inv in DEVS_MUST_FAIL.items():
        rr = res["dev:" + dev]
        if rr["violated"] not in (inv if isinstance(inv, tuple) else (inv,)):
            raise vlib.Infra(f"deviation {dev} should violate {inv} in Wal.tla but TLC says {rr['violated']} / {rr['error']}")
        devs[dev] = rr["violated"]
    for dev, inv in DEVS_ISOLATED:
        rr = res[f"alone:{dev}:{inv}"]
        if rr["violated"] != inv:
            raise vlib.Infra(f"deviation {dev} should violate {inv} checked alone but TLC says {rr['violated']} / {rr['error']}")
        devs[f"{dev} ({inv} alone)"] = rr["violated"]
    rr = res["dropdev"]
    if rr["violated"] != "Durable":
        raise vlib.Infra(f'deviation {{"drop_files_after_log"}} should violate Durable in Wal.tla (drop cfg) but TLC says {rr["violated"]} / {rr["error"]}')
    devs['{"drop_files_after_log"}'] = rr["violated"]
    stats["deviations_caught"] = devs
    # the same design with DROP MEASUREMENT (no resurrection of a dropped measurement by recovery)
    rd = res["drop"]
    vlib.tlc_must_pass(rd, "Wal.exh.drop.cfg")
    stats["drop"] = {"cfg": "Wal.exh.drop.cfg", "generated": rd["generated"], "distinct": rd["distinct"], "depth": rd["depth"]}
    return stats


def inside_flush(h):
    """index (among the Flush steps, 1-based) of the first flush of history h that has a write started inside it
    overwriting a cell of that flush's snapshot (both records are then in the log at once, the older one in the
    file being flushed, the newer one in the next file of the partition); 0 if none"""
    nf = 0
    for i, st in enumerate(h):
        if st["a"] != "Flush":
            continue
        nf += 1
        prev = max([j for j in range(i) if h[j]["a"] == "Flush"], default=-1)
        before = {x["k"] for x in h[prev + 1:i] if x["a"] == "Write"}   # the cells of this flush's snapshot
        j = i + 1
        while j < len(h) and h[j]["a"] == "Write" and h[j].get("at") not in (None, "idle", "-"):
            if h[j]["k"] in before:
                return nf
            j += 1
    return 0


def with_warmup(h, ncycles):
    """h preceded by ncycles (write, forced flush) cycles of the cell of its first write. The result is again a
    behaviour of Wal.tla (with larger MaxW / MaxFlush); with one log partition the file sequence of that partition
    then stands at ncycles + 1 when h begins. No crash image is taken during the warm-up ("pre")."""
    first = next(x for x in h if x["a"] == "Write")
    pre = []
    for i in range(ncycles):
        pre.append({"a": "Write", "w": 100 + i, "k": first["k"], "s": first["s"], "kind": "none", "at": "idle"})
        pre.append({"a": "Flush", "w": 0, "k": "-", "s": "-", "kind": "auto" if i % 4 == 3 else "forced", "at": "-"})
    return pre + h, len(pre)


def gen_histories(tier, seed):
    """returns (cases without id/seed, stats)"""
    nsim = 150 if tier == "quick" else 700
    r = vlib.run_tlc("WalMC", "Wal.sim.cfg", simulate=nsim, depth=90, seed=seed, timeout=1800)
    vlib.tlc_must_pass(r, "Wal.sim.cfg")
    seen, out = set(), []
    for h in r["traces"]:
        k = json.dumps(h)
        if k not in seen and any(s["a"] == "Flush" for s in h):
            seen.add(k)
            out.append(h)
    # the export prints a history at two lengths: keep the longer one
    keys = {json.dumps(h)[:-1] for h in out}
    out = [h for h in out if not any(k != json.dumps(h)[:-1] and k.startswith(json.dumps(h)[:-1] + ",") for k in keys)]
    limit = 48 if tier == "quick" else 400
    # every kind of step the specification distinguishes must be among the histories that are kept: an automatic
    # flush of a memtable holding a series that no earlier flush covered, a write started inside a flush
    def feats(h):
        f = set()
        flushed = set()
        pending = set()
        for i, st in enumerate(h):
            if st["a"] == "Write":
                if st["s"] not in flushed:
                    pending.add(st["s"])
                if st.get("at") not in (None, "idle", "-"):
                    f.add("inside")
            elif st["a"] == "Flush":
                if st["kind"] == "auto":
                    f.add("auto")
                    if pending:
                        f.add("auto_new_series")
                flushed |= pending
                pending = set()
        return f
    rich = [h for h in out if {"auto_new_series", "inside"} <= feats(h)]
    rest = [h for h in out if h not in rich]
    plain = (rich[:limit // 2] + rest)[:limit]
    cases = [{"hist": h} for h in plain]
    # the same, behind a warm-up that puts the log-file sequence of the (single) partition right below a digit
    # boundary: the flush with an overwriting write inside then has <9>.wal pending and <10>.wal live
    nb = 12 if tier == "quick" else 80
    nbound = 0
    for h in out:
        f = inside_flush(h)
        if f and nbound < nb:
            hh, pre = with_warmup(h, 9 - f)
            cases.append({"hist": hh, "pre": pre, "parts": 1})
            nbound += 1
    # histories with DROP MEASUREMENT of the measurement that holds cell k3
    nd = 120 if tier == "quick" else 600
    r2 = vlib.run_tlc("WalMC", "Wal.sim.drop.cfg", simulate=nd, depth=90, seed=seed + 7, timeout=1800)
    vlib.tlc_must_pass(r2, "Wal.sim.drop.cfg")
    drops = []
    for h in r2["traces"]:
        k = json.dumps(h)
        if k in seen:
            continue
        seen.add(k)
        ws = [i for i, s_ in enumerate(h) if s_["a"] == "Write" and s_["k"] == "k3"]
        ds = [i for i, s_ in enumerate(h) if s_["a"] == "Drop"]
        if ws and ds and min(ws) < max(ds):
            drops.append(h)
    dl = 16 if tier == "quick" else 150
    cases += [{"hist": h} for h in drops[:dl]]
    return cases, {"generated": r["generated"] + r2["generated"], "traces": len(r["traces"]) + len(r2["traces"]),
                   "distinct_with_flush": len(plain), "with_auto_flush_of_new_series_and_inside_write": len([h for h in plain if h in rich]),
                   "with_warmup_to_file_sequence_boundary": nbound, "with_drop": len(drops[:dl])}


TRACE_CFG = """SPECIFICATION TraceSpec
CONSTANTS
  N = %d
  Keys = {"k1", "k2", "k3"}
  MaxW = 24
  MaxFlush = 24
  MaxCrash = 0
  MaxInits = 4
  DropKeys = {}
  MaxDrop = 0
  SeriesOpts = {{{"k1"}, {"k2"}, {"k3"}}}
  Dev = {"rr_from_0", "wal_remove_one_by_one", "drop_files_after_log"}
INVARIANTS TypeOK WalBeforeAck IndexOrLog FilesIndexed
PROPERTIES RemoveAfterRename IndexBeforeWalRemove
CONSTRAINT HighWater
POSTCONDITION TraceAccepted
CHECK_DEADLOCK FALSE
"""


def validate_traces(runs, n):
    """Mode C: runs = list of (event list, cell -> series map) recorded with n WAL partitions.
    Returns (accepted?, tlc result)."""
    tmp = vlib.scratch("c01trace")
    try:
        tp = os.path.join(tmp, "trace.ndjson")
        with open(tp, "w") as f:
            for ev, ser in runs:
                full = {k: k for k in ("k1", "k2", "k3")}
                full.update(ser or {})
                f.write(json.dumps({"ev": "Reset", "ser": full}) + "\n")
                for e in ev:
                    f.write(json.dumps(e) + "\n")
        cp = os.path.join(tmp, "TraceWal.cfg")
        open(cp, "w").write(TRACE_CFG % n)
        r = vlib.run_tlc("TraceWal", cp, workers=1, timeout=1200, copy_files=[tp], depth_first=True)
        if r.get("timeout") or r["error"]:
            raise vlib.Infra(f"trace validation did not run: {r['error']}\n" + r["out"][-2000:])
        return (r["violated"] is None), r
    finally:
        import shutil
        shutil.rmtree(tmp, ignore_errors=True)


def mode_c(results):
    """validate the recorded event order of every run; returns (stats, list of rejected results)"""
    stats = {"runs": 0, "events": 0, "tlc_states": 0, "index_flush_events": 0}
    rejected = []
    by_n = {}
    for r in results:
        if r.get("tev"):
            by_n.setdefault(r["parts"], []).append(r)
    groups = []   # split big groups so that the TLC runs go in parallel
    for n, rs in sorted(by_n.items()):
        per = max(1, (len(rs) + 3) // 4)
        for i in range(0, len(rs), per):
            groups.append((n, rs[i:i + per]))
    def one(g):
        n, rs = g
        return validate_traces([(r["tev"], r.get("ser")) for r in rs], n)
    with cf.ThreadPoolExecutor(max(1, min(len(groups), 6))) as ex:
        outs = list(ex.map(one, groups))
    for (n, rs), (ok, t) in zip(groups, outs):
        stats["runs"] += len(rs)
        stats["events"] += sum(len(r["tev"]) for r in rs)
        stats["index_flush_events"] += sum(1 for r in rs for e in r["tev"] if e["ev"] == "IndexFlush")
        stats["tlc_states"] += t["distinct"]
        if not ok:   # find the offending run(s)
            for r in rs:
                ok1, t1 = validate_traces([(r["tev"], r.get("ser"))], n)
                if not ok1:
                    r2 = dict(r)
                    r2["ok"] = False
                    why = t1["violated"] or ""
                    r2["detail"] = (f"recorded file-system event order of the write/flush path is not a behaviour of Wal.tla "
                                    f"(TLC: {why}; trace matched up to a prefix of {t1['distinct']} states; series {r.get('ser')}): "
                                    + json.dumps(r["tev"])[:1500])
                    rejected.append(r2)
    return stats, rejected


def replay_cases(cases):
    vh = vlib.build_vh()
    results, errs, tol = vlib.run_vh_parallel(vh, ["replay-wal"], cases, tolerate=vlib.f_c04_1_death)
    TOLERATED.extend(tol)
    if errs:
        raise vlib.Infra(f"harness process failed: {errs[0]}")
    if len(results) + len(tol) != len(cases):
        raise vlib.Infra(f"harness returned {len(results)} results for {len(cases)} cases")
    return results


def run(tier, seed):
    t0 = time.time()
    a = mode_a(tier)
    gen, gstats = gen_histories(tier, seed)
    if not gen:
        raise vlib.Infra("no histories generated")
    cases = [dict(g, id=i, seed=seed, thorough=tier == "thorough") for i, g in enumerate(gen)]
    hists = [c["hist"] for c in cases]
    results = replay_cases(cases)
    infra = [r for r in results if r.get("infra")]
    if infra:
        raise vlib.Infra(f"harness infra error: {infra[0]}")
    byid = {c["id"]: c for c in cases}
    if TOLERATED:
        print(f"KNOWN-FINDING: property={PROP} F-C04-1 the store process died {len(TOLERATED)} times at close with an unbalanced tsspFile reference count "
              f"(negative WaitGroup counter / close blocked in wg.Wait); those cases are not judged")
    bad = [r for r in results if not r["ok"]]
    cstats, rejected = mode_c(results)
    bad += rejected
    open_ids = {f["id"] for f in vlib.load_known(PROP)}
    known = {}
    for r in results:
        for k, n in (r.get("known") or {}).items():
            known.setdefault(k, [0, (r.get("known_examples") or {}).get(k) or r.get("known_example", "")])
            known[k][0] += n
    for k in list(known):
        if k not in open_ids:
            bad.append({"id": -1, "ok": False, "detail": f"divergence attributed to {k}, which is not a listed open finding"})
    for k in sorted(known):
        if k in open_ids:
            print(f"KNOWN-FINDING: property={PROP} {k} re-observed at {known[k][0]} crash points, e.g. {known[k][1][:400]}")
    for r in bad[:5]:
        c = dict(byid.get(r["id"], {}))
        if r.get("at"):
            c["only_at"] = [r["at"]]
        path = vlib.save_replay(PROP, {"case": c, "result": {k: v for k, v in r.items() if k not in ("trace", "tev")}, "trace": r.get("trace"), "tev": r.get("tev")})
        print(f"VIOLATION property={PROP} replay={path}")
        vlib.log(r.get("detail", ""))
    # thorough: a listed open finding that can no longer be reproduced means the list is stale
    if tier == "thorough":
        for k in open_ids:
            if k not in known:
                raise vlib.Infra(f"open finding {k} was not re-observed in the thorough tier: known_findings.json must be updated")
    images = sum(r["images"] for r in results)
    tot = lambda k: sum(r.get(k, 0) for r in results)
    # vacuity guards: the behaviours this check exists for must have been executed
    if not bad:
        if tot("auto_flushes") == 0 or tot("auto_images") == 0:
            raise vlib.Infra(f"no automatic (ticker-started) flush was performed / no crash image taken inside one "
                             f"(auto_flushes={tot('auto_flushes')}, auto_images={tot('auto_images')})")
        if tot("index_flushes") == 0:
            raise vlib.Infra("no flush of the series index was observed by the recorder")
        if tot("inside_writes") == 0 or tot("two_file_images") == 0:
            raise vlib.Infra(f"no write was executed inside a flush / no image with two live log files in one partition "
                             f"(inside_writes={tot('inside_writes')}, two_file_images={tot('two_file_images')})")
    cov = {
        "states": a["distinct"] + a["drop"]["distinct"], "transitions": a["generated"] + a["drop"]["generated"],
        "traces_validated_against_impl": len(results),
        "samples": [hists[0], hists[-1]],
        "evaluations": images + sum(r["nested"] + r["torn"] for r in results),
        "distinct_nontrivial": images,
        "rule": "one evaluation = one crash image restored and re-opened (after a file-system mutation of the write/flush path, "
                "plus torn-tail variants of the last log record and images taken inside recovery); distinct_nontrivial = images "
                "at distinct (history, fs event) pairs",
        "histories": len(hists), "crash_images": images,
        "nested_recovery_images": sum(r["nested"] for r in results),
        "torn_tail_images": sum(r["torn"] for r in results),
        "fs_events": sum(r["events"] for r in results),
        "index_inconclusive": sum(r.get("index_inconclusive", 0) for r in results),
        "automatic_flushes_performed": tot("auto_flushes"), "forced_flushes_performed": tot("forced_flushes"),
        "images_inside_automatic_flushes": tot("auto_images"),
        "writes_inside_a_flush": tot("inside_writes"),
        "images_with_two_log_files_in_a_partition": tot("two_file_images"),
        "index_flushes_observed": tot("index_flushes"), "images_after_index_file_operations": tot("index_images"),
        "known_findings_crash_points": {k: v[0] for k, v in known.items()},
        "tlc": {"exhaustive": a, "generator": gstats},
        "trace_validation": cstats,
        "exhaustive": tier == "thorough",
    }
    vlib.write_evidence(PROP, tier, seed, "model_checking", cov, time.time() - t0, len(bad), [
        "process-kill semantics: the directory tree at the crash instant is the image (no loss of un-synced pages)",
        "single sequential client, so acknowledgement order is well defined",
        "series-index image taken by repeated copy until quiescent; images whose index cannot be opened are counted as inconclusive",
        "the harness never flushes the series index of the live engine; an image holds what the engine's own index flushes had made durable",
        "a write inside a flush runs entirely while the flush is held before one of its file operations (one of the interleavings of the specification)",
        "TLC bounds as in the cfg files named under coverage.tlc",
    ])
    return 1 if bad else 0


def selftest(seed):
    """negative controls of the trace specification (Mode C): a correct event sequence of one write and one automatic
    flush of a new series is accepted; the same sequence with one step dropped, displaced or altered is rejected"""
    ser = {"k1": "k1", "k2": "k2", "k3": "k3"}
    W = [{"ev": "WriteMem", "k": "k1"}, {"ev": "WriteWal", "p": 1}, {"ev": "Ack"}]
    F = lambda kind, idx=True: ([{"ev": "FlushSwitch", "kind": kind}] + ([{"ev": "IndexFlush"}] if idx else []) +
                                [{"ev": "FlushInit"}, {"ev": "FlushRename"}, {"ev": "FlushRemoveWal", "p": 1}, {"ev": "FlushEnd"}])
    good = {"auto flush": W + F("auto"), "forced flush": W + F("forced"),
            "index already flushed in the background": W + [{"ev": "IndexFlush"}] + F("auto", idx=False),
            "write inside the flush": W + F("auto")[:3] + [{"ev": "WriteMem", "k": "k2"}, {"ev": "WriteWal", "p": 2}, {"ev": "Ack"}] + F("auto")[3:]}
    a = F("auto")
    bad = {"index flush missing in an automatic flush of a new series": W + F("auto", idx=False),
           "index flush missing in a forced flush of a new series": W + F("forced", idx=False),
           "index flush after the log removal": W + [a[0], a[2], a[3], a[4], a[1], a[5]],
           "record in the wrong partition": [W[0], {"ev": "WriteWal", "p": 2}, W[2]] + a,
           "rename dropped": W + [a[0], a[1], a[2], a[4], a[5]],
           "log removed before the rename": W + [a[0], a[1], a[2], a[4], a[3], a[5]],
           "acknowledged before the log record": [W[0], W[2], W[1]] + a}
    rc = 0
    for name, ev in good.items():
        ok, t = validate_traces([(ev, ser)], 2)
        print(f"selftest C01 trace '{name}': {'accepted' if ok else 'REJECTED (' + str(t['violated']) + ')'}")
        rc |= 0 if ok else 2
    for name, ev in bad.items():
        ok, t = validate_traces([(ev, ser)], 2)
        print(f"selftest C01 trace '{name}': {'ACCEPTED' if ok else 'rejected (' + str(t['violated']) + ')'}")
        rc |= 2 if ok else 0
    return rc


def replay(path, seed):
    obj = json.load(open(path))
    res = replay_cases([obj["case"]])
    r = res[0]
    _, rej = mode_c(res)
    if rej:
        r = rej[0]
    if not r["ok"]:
        print(f"VIOLATION property={PROP} replay={path}")
        vlib.log(r["detail"])
        return 1
    print("replay passes")
    return 0
