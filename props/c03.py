"""C03 — compaction and out-of-order merge change no answer and are crash-atomic.
Mode A: TLC checks specs/Replace.tla (the file replacement protocol and its recovery, crash between any
two steps, second and third crash inside recovery) for Stable / LogResolvable and the ordering action
properties, and confirms that the mutation seeds are caught. Mode B: Layout.tla behaviours are replayed
into a real shard; reads are compared after every reorganisation (contents unchanged), and for every
reorganisation a crash image is frozen after each of its file-system mutations, restored and re-opened
(plus images taken inside the recovery of an image); the recovered contents must equal the contents
before the reorganisation. Mode C: the recorded mutation order of every real reorganisation is validated
by TLC against TraceReplace.tla."""
import json, os, shutil, time
import vlib

PROP = "C03"
TOLERATED = []   # cases whose harness process died with the signature of open finding F-C04-1 (c)
DEVS = {'{"delete_old_before_log"}': "Stable", '{"delete_tail_first"}': "Stable"}
DEVS_ORDER = {'{"skip_log"}': "LogBeforeRename", '{"rename_before_log"}': "LogBeforeRename"}


def mode_a():
    r = vlib.run_tlc("Replace", "Replace.exh.cfg", timeout=1200)
    vlib.tlc_must_pass(r, "Replace.exh.cfg")
    stats = {"cfg": "Replace.exh.cfg", "generated": r["generated"], "distinct": r["distinct"], "depth": r["depth"]}
    base = open(os.path.join(vlib.SPECS, "cfg", "Replace.exh.cfg")).read()
    tmp = vlib.scratch("c03cfg")
    caught = {}
    try:
        for dev, inv in list(DEVS.items()) + list(DEVS_ORDER.items()):
            p = os.path.join(tmp, "dev.cfg")
            txt = base.replace("Dev = {}", "Dev = " + dev)
            if dev in DEVS:   # judge the state invariant alone
                txt = "\n".join(l for l in txt.splitlines() if not l.startswith("PROPERTIES")) + "\n"
            open(p, "w").write(txt)
            rr = vlib.run_tlc("Replace", p, timeout=600)
            if rr["violated"] != inv:
                raise vlib.Infra(f"deviation {dev} should violate {inv} in Replace.tla, TLC says {rr['violated']} / {rr['error']}")
            caught[dev] = inv
    finally:
        shutil.rmtree(tmp, ignore_errors=True)
    stats["deviations_caught"] = caught
    return stats


def gen(tier, seed):
    nsim = 60 if tier == "quick" else 700
    r = vlib.run_tlc("LayoutMC", "Layout.sim.cfg", simulate=nsim, depth=18, seed=seed + 1000, timeout=3000)
    vlib.tlc_must_pass(r, "Layout.sim.cfg")
    r2 = vlib.run_tlc("LayoutMC", "Layout.sim.sparse.cfg", simulate=nsim, depth=18, seed=seed + 2000, timeout=3000)
    vlib.tlc_must_pass(r2, "Layout.sim.sparse.cfg")
    reorg = ("LevelCompact", "FullCompact", "MergeOOO")
    hs2 = [h for h in r2["traces"] if any(e["a"] in ("LevelCompact", "FullCompact") for e in h)]
    hs2.sort(key=lambda h: -sum(1 for e in h if e["a"] in ("LevelCompact", "FullCompact")))
    hs = [h for h in r["traces"] if any(e["a"] in reorg for e in h)]
    # prefer behaviours with several kinds of reorganisation
    hs.sort(key=lambda h: -len({e["a"] for e in h if e["a"] in reorg}))
    # scripted writes (files of different schema with several segments) x every placement of reorganisations
    r3 = vlib.run_tlc("LayoutMC", "Layout.bfs.script.cfg", workers=4, timeout=1200)
    vlib.tlc_must_pass(r3, "Layout.bfs.script.cfg")
    hs3 = [h for h in r3["traces"] if any(e["a"] in ("LevelCompact", "FullCompact") for e in h)
           and sum(1 for e in h if e["a"] == "Write") >= 2]
    import random
    rnd = random.Random(seed)
    rnd.shuffle(hs3)
    limit = 48 if tier == "quick" else 800
    out = hs[:limit] + hs2[:limit] + hs3[:(96 if tier == "quick" else 10 ** 6)]
    return out, {"generated": r["generated"] + r2["generated"], "traces": len(r["traces"]) + len(r2["traces"]),
                 "with_reorg": len(hs), "sparse_with_compaction": len(hs2), "scripted": len(hs3)}


def replay_cases(cases):
    vh = vlib.build_vh()
    results, errs, tol = vlib.run_vh_parallel(vh, ["replay-layout"], cases, tolerate=vlib.f_c04_1_death)
    TOLERATED.extend(tol)
    if errs:
        raise vlib.Infra(f"harness process failed: {errs[0]}")
    if len(results) + len(tol) != len(cases):
        raise vlib.Infra(f"harness returned {len(results)} results for {len(cases)} cases")
    return results


def trace_lines(tev):
    nnew = sum(1 for e in tev if e["ev"] == "WriteNew")
    has_log = any(e["ev"] == "LogCreate" for e in tev)
    dels = [i for i, e in enumerate(tev) if e["ev"] == "DeleteOld"]
    lr = [i for i, e in enumerate(tev) if e["ev"] == "LogRemove"]
    if not has_log or not lr:
        return None  # aborted / empty reorganisation (new files written and withdrawn): not a replacement
    nold = sum(1 for i in dels if i < lr[0])
    ntail = sum(1 for i in dels if i > lr[0])
    out = [{"ev": "Reset", "nold": nold, "nnew": nnew, "ntail": ntail}]
    out += [{"ev": e["ev"]} for e in tev]
    return out


def validate(runs):
    tmp = vlib.scratch("c03trace")
    try:
        tp = os.path.join(tmp, "trace.ndjson")
        with open(tp, "w") as f:
            for lines in runs:
                for x in lines:
                    f.write(json.dumps(x) + "\n")
        r = vlib.run_tlc("TraceReplace", "TraceReplace.cfg", workers=1, timeout=1200, copy_files=[tp], depth_first=True)
        if r.get("timeout") or r["error"]:
            raise vlib.Infra(f"trace validation did not run: {r['error']}\n" + r["out"][-2000:])
        return r["violated"] is None, r
    finally:
        shutil.rmtree(tmp, ignore_errors=True)


def mode_c(results):
    runs, owners = [], []
    skipped = 0
    for r in results:
        for tev in r.get("tev") or []:
            lines = trace_lines(tev)
            if lines is None:
                skipped += 1
                continue
            runs.append(lines)
            owners.append((r, tev))
    stats = {"reorganisations": len(runs), "events": sum(len(x) - 1 for x in runs), "not_replacements": skipped}
    rejected = []
    if runs:
        ok, t = validate(runs)
        stats["tlc_states"] = t["distinct"]
        if not ok:
            for lines, (r, tev) in zip(runs, owners):
                ok1, t1 = validate([lines])
                if not ok1:
                    r2 = dict(r)
                    r2["ok"] = False
                    r2["detail"] = ("file-system mutation order of a real reorganisation is not a behaviour of the replacement protocol "
                                    f"(Replace.tla; matched a prefix of {t1['distinct'] - 1} events): " + json.dumps([e['ev'] for e in tev]))
                    rejected.append(r2)
    return stats, rejected


def run(tier, seed):
    t0 = time.time()
    a = mode_a()
    hists, g = gen(tier, seed)
    if not hists:
        raise vlib.Infra("no behaviours with reorganisations generated")
    cases = [{"id": i, "seed": seed, "hist": h, "crash": True} for i, h in enumerate(hists)]
    results = replay_cases(cases)
    infra = [r for r in results if r.get("infra")]
    if infra:
        raise vlib.Infra(f"harness infra error: {infra[0]}")
    if TOLERATED:
        print(f"KNOWN-FINDING: property={PROP} F-C04-1 the store process died {len(TOLERATED)} times at close with an unbalanced tsspFile reference count "
              f"(negative WaitGroup counter / close blocked in wg.Wait); those cases are not judged")
    bad = [r for r in results if not r["ok"]]
    cstats, rejected = mode_c(results)
    bad += rejected
    byid = {c["id"]: c for c in cases}
    for r in bad[:5]:
        path = vlib.save_replay(PROP, {"case": byid[r["id"]], "result": {k: v for k, v in r.items() if k != "tev"}})
        print(f"VIOLATION property={PROP} replay={path}")
        vlib.log(r.get("detail", ""))
    images = sum(r.get("images", 0) for r in results)
    reorgs = sum(r.get("reorgs", 0) for r in results)
    if reorgs == 0:
        raise vlib.Infra("no real reorganisation replaced any file: the run is vacuous")
    cov = {
        "states": a["distinct"], "transitions": a["generated"],
        "traces_validated_against_impl": len(results),
        "samples": [hists[0]],
        "evaluations": images + sum(r.get("nested", 0) for r in results),
        "distinct_nontrivial": images,
        "rule": "one evaluation = a crash image frozen after one file-system mutation of a real compaction/merge (or inside the "
                "recovery of such an image), restored, re-opened and fully read; distinct_nontrivial = first-level images",
        "behaviours": len(hists), "real_reorganisations": reorgs, "crash_images": images,
        "nested_recovery_images": sum(r.get("nested", 0) for r in results),
        "reads_compared": sum(r.get("reads", 0) for r in results),
        "index_inconclusive": sum(r.get("index_inconclusive", 0) for r in results),
        "trace_validation": cstats,
        "tlc": {"exhaustive": a, "generator": g},
        "exhaustive": False,
    }
    vlib.write_evidence(PROP, tier, seed, "model_checking", cov, time.time() - t0, len(bad), [
        "process-kill semantics (the directory tree at the crash instant is the image)",
        "plans are those the real planner picks on the prepared layouts (group size 2) plus forced full compaction / merge",
        "max-rows-per-segment in {default, 2, 3, 5}",
    ])
    return 1 if bad else 0


def replay(path, seed):
    obj = json.load(open(path))
    res = replay_cases([obj["case"]])
    r = res[0]
    _, rej = mode_c(res)
    if rej:
        r = rej[0]
    if not r["ok"]:
        print(f"VIOLATION property={PROP} replay={path}")
        vlib.log(r["detail"])
        return 1
    print("replay passes")
    return 0
