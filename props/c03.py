"""C03 — compaction, out-of-order merge and down-sample replacement change no answer and are crash-atomic.
Mode A: TLC checks
  * specs/Replace.tla (the file replacement protocol of compaction / merge and its recovery: temporary files being
    written, log, renames, deletes, log removal, crash between any two steps, second and third crash inside recovery),
  * specs/ReplaceDS.tla (the second replace protocol: down-sample replacement with its own log, several measurements
    under one log, forward-only recovery),
  * specs/Layout.tla with the reorganisation actions (level compaction with the planner's grouping, per measurement and
    per method; full compaction; merge; down-sample) for ReadEqLWW / OrderedDisjoint / ...,
  and confirms that every mutation seed (Dev) of the three modules is caught.
Mode B: Layout.tla behaviours (random, sparse, scripted, and scheduled multi-level / full / group-of-three / down-sample
  sequences over two measurements, out-of-order rows scattered over several ordered files) are replayed into a real shard; reads are compared after every action; for every
  reorganisation a crash image is frozen after each of its file-system mutations - the writes of the temporary files of
  the compaction itself included, plus images with a half-written temporary file or log - restored and re-opened (for a
  third of them a second generation of images is taken inside that recovery); the recovered contents must equal the
  contents the protocol defines (before the reorganisation; for a down-sample: before it, or the aggregate once the log
  was complete - never a mixture).
Mode C: the recorded mutation order of every real reorganisation is validated by TLC against TraceReplace.tla."""
import concurrent.futures as cf
import json, os, random, shutil, time
import vlib

os.environ.setdefault("JAVA_TOOL_OPTIONS", "-Xmx3g")   # several JVMs run side by side on a shared machine

PROP = "C03"
TOLERATED = []   # cases whose harness process died with the signature of open finding F-C04-1 (c)

# mutation seeds: module, cfg, deviation -> the invariants / properties one of which TLC must report
REPLACE_DEVS = {"delete_old_before_log": ("Stable",), "delete_tail_first": ("Stable",),
                "log_before_files_complete": ("NoTornVisible", "Stable")}
REPLACE_ORDER_DEVS = {"skip_log": ("LogBeforeRename",), "rename_before_log": ("LogBeforeRename",)}
REPLACEDS_DEVS = {"ds_log_before_files_complete": ("NoTornVisible", "Atomic"), "ds_rename_before_log": ("Atomic",),
                  "ds_log_removed_early": ("Atomic",), "ds_bad_log_rolls_forward": ("Decided", "Atomic"),
                  "ds_recovery_keeps_old": ("Atomic",)}
LAYOUT_DEVS = {"stream_drops_late_column": ("ReadEqLWW",), "group_skips_one": ("OrderedDisjoint", "ReadEqLWW"),
               "merge_ordered_wins": ("ReadEqLWW",), "compact_drops_newer": ("ReadEqLWW",),
               "ds_shared_window": ("OrderedDisjoint", "ReadEqLWW"), "ds_window_end_inclusive": ("ReadEqLWW",)}

REORG = ("LevelCompact", "FullCompact", "MergeOOO", "DownSample")


def _dev_cfg(tmp, base_cfg, dev, drop_properties):
    txt = open(os.path.join(vlib.SPECS, "cfg", base_cfg)).read().replace("Dev = {}", 'Dev = {"%s"}' % dev)
    if drop_properties:   # judge the state invariants alone
        txt = "\n".join(l for l in txt.splitlines() if not l.startswith("PROPERTIES")) + "\n"
    p = os.path.join(tmp, "%s.%s.cfg" % (base_cfg, dev))
    open(p, "w").write(txt)
    return p


def _dev_job(tmp, module, base_cfg, dev, wanted, drop_properties):
    rr = vlib.run_tlc(module, _dev_cfg(tmp, base_cfg, dev, drop_properties), workers=2, timeout=900)
    if rr["violated"] not in wanted:
        raise vlib.Infra(f"deviation {dev} should violate one of {wanted} in {module}, TLC says {rr['violated']} / {rr['error']}\n" + rr["out"][-1500:])
    return dev, rr["violated"]


def mode_a_jobs(pool, tier, tmp):
    """submit the Mode A runs; returns {name: future}"""
    jobs = {}
    jobs["Replace.exh.cfg"] = pool.submit(vlib.run_tlc, "Replace", "Replace.exh.cfg", 2, None, None, None, 1200)
    jobs["ReplaceDS.exh.cfg"] = pool.submit(vlib.run_tlc, "ReplaceDS", "ReplaceDS.exh.cfg", 2, None, None, None, 1200)
    lcfg = "Layout.exh.reorg.quick.cfg" if tier == "quick" else "Layout.exh.reorg.thorough.cfg"
    jobs[lcfg] = pool.submit(vlib.run_tlc, "LayoutMC", lcfg, 6 if tier == "quick" else 12, None, None, None, 3000)
    for dev, w in REPLACE_DEVS.items():
        jobs["dev:" + dev] = pool.submit(_dev_job, tmp, "Replace", "Replace.exh.cfg", dev, w, True)
    for dev, w in REPLACE_ORDER_DEVS.items():
        jobs["dev:" + dev] = pool.submit(_dev_job, tmp, "Replace", "Replace.exh.cfg", dev, w, False)
    for dev, w in REPLACEDS_DEVS.items():
        jobs["dev:" + dev] = pool.submit(_dev_job, tmp, "ReplaceDS", "ReplaceDS.exh.cfg", dev, w, True)
    for dev, w in LAYOUT_DEVS.items():
        jobs["dev:" + dev] = pool.submit(_dev_job, tmp, "LayoutMC", "Layout.dev.reorg.cfg", dev, w, True)
    return jobs


def mode_a_collect(jobs):
    stats, caught = {"runs": []}, {}
    for name, fut in jobs.items():
        r = fut.result()
        if name.startswith("dev:"):
            caught[r[0]] = r[1]
            continue
        vlib.tlc_must_pass(r, name)
        stats["runs"].append({"cfg": name, "generated": r["generated"], "distinct": r["distinct"], "depth": r["depth"],
                              "wall_s": round(r["wall_s"], 1)})
    stats["deviations_caught"] = caught
    stats["generated"] = sum(x["generated"] for x in stats["runs"])
    stats["distinct"] = sum(x["distinct"] for x in stats["runs"])
    return stats


# generators: (cfg, simulated traces quick/thorough (None = BFS), behaviours replayed quick/thorough, depth)
GENERATORS = [
    ("Layout.c03.sim.cfg",       (40, 250),  (9, 50), 18),
    ("Layout.c03.sparse.cfg",    (40, 250),  (9, 50), 18),
    ("Layout.c03.script.cfg",    None,       (12, 70), None),
    ("Layout.sched.levels.cfg",  (20, 150),  (7, 36), 20),
    ("Layout.sched.group3.cfg",  (20, 120),  (6, 24), 20),
    ("Layout.sched.full.cfg",    (20, 120),  (5, 24), 20),
    ("Layout.sched.merge.cfg",   (20, 120),  (6, 24), 20),
    ("Layout.sched.ds1.cfg",     (20, 120),  (5, 24), 20),
    ("Layout.sched.ds2.cfg",     (20, 120),  (5, 24), 20),
    ("Layout.sched.ds3.cfg",     (20, 120),  (5, 24), 20),
    ("Layout.sched.dsdense.cfg", (12, 80),   (4, 16), 20),
]


def _gen_job(cfg, nsim, depth, seed):
    if nsim is None:
        r = vlib.run_tlc("LayoutMC", cfg, workers=2, timeout=1200)
    else:
        r = vlib.run_tlc("LayoutMC", cfg, simulate=nsim, depth=depth, seed=seed, timeout=3000)
    vlib.tlc_must_pass(r, cfg)
    return r


def nreorg(h):
    return sum(1 for e in h if e["a"] in REORG)


def gen(pool, tier, seed):
    ti = 0 if tier == "quick" else 1
    futs = []
    for k, (cfg, nsim, nrep, depth) in enumerate(GENERATORS):
        futs.append(pool.submit(_gen_job, cfg, None if nsim is None else nsim[ti], depth, seed + 1000 * (k + 1)))
    rnd = random.Random(seed)
    out, stats = [], {"generated": 0, "per_generator": {}}
    for (cfg, nsim, nrep, depth), fut in zip(GENERATORS, futs):
        r = fut.result()
        hs = [h for h in r["traces"] if nreorg(h) > 0]
        if cfg == "Layout.c03.script.cfg":
            hs = [h for h in hs if sum(1 for e in h if e["a"] == "Write") >= 2 and any(e["a"] in ("LevelCompact", "FullCompact") for e in h)]
        # distinct behaviours only, the richest first (several kinds of reorganisation, then many of them), ties shuffled
        uniq = {json.dumps(h, sort_keys=True): h for h in hs}
        hs = list(uniq.values())
        rnd.shuffle(hs)
        hs.sort(key=lambda h: (-len({e["a"] for e in h if e["a"] in REORG}), -nreorg(h)))
        if cfg == "Layout.c03.script.cfg":
            rnd.shuffle(hs)
        take = hs[:nrep[ti]]
        out += [(cfg, h) for h in take]
        stats["generated"] += r["generated"]
        stats["per_generator"][cfg] = {"generated": r["generated"], "traces": len(r["traces"]), "with_reorg": len(hs), "replayed": len(take)}
    return out, stats


def replay_cases(cases):
    vh = vlib.build_vh()
    results, errs, tol = vlib.run_vh_parallel(vh, ["replay-layout"], cases, tolerate=vlib.f_c04_1_death, timeout=3000)
    TOLERATED.extend(tol)
    if errs:
        raise vlib.Infra(f"harness process failed: {errs[0]}")
    if len(results) + len(tol) != len(cases):
        raise vlib.Infra(f"harness returned {len(results)} results for {len(cases)} cases")
    return results


def trace_lines(tev):
    """one recorded reorganisation -> list of TraceReplace.tla runs: one per replacement (= per log) for compaction / merge
    (the groups of a level compaction and the measurements of a merge are replaced concurrently, each under its own log;
    the harness attributes every event to the log that names its file), one for a down-sample (one log for all)"""
    proto = tev[0].get("proto", "compact") if tev and tev[0]["ev"] == "Proto" else "compact"
    evs = [e for e in tev if e["ev"] != "Proto"]
    groups = {}
    if proto == "ds":
        groups["*"] = evs
    else:
        for e in evs:
            groups.setdefault(e.get("g") or "", []).append(e)
    runs = []
    for m, g in groups.items():
        has_log = any(e["ev"] == "LogCreate" for e in g)
        lr = [i for i, e in enumerate(g) if e["ev"] == "LogRemove"]
        if not has_log or not lr:
            runs.append(None)   # aborted / empty reorganisation (new files written and withdrawn): not a replacement
            continue
        dels = [i for i, e in enumerate(g) if e["ev"] == "DeleteOld"]
        nold = sum(1 for i in dels if i < lr[0])
        ntail = sum(1 for i in dels if i > lr[0])
        lines = [{"ev": "Reset", "nold": nold, "ntail": ntail, "proto": proto, "f": ""}]
        lines += [{"ev": e["ev"], "f": e.get("f", "")} for e in g]
        runs.append(lines)
    return runs


def validate(runs):
    tmp = vlib.scratch("c03trace")
    try:
        tp = os.path.join(tmp, "trace.ndjson")
        with open(tp, "w") as f:
            for lines in runs:
                for x in lines:
                    f.write(json.dumps(x) + "\n")
        r = vlib.run_tlc("TraceReplace", "TraceReplace.cfg", workers=1, timeout=2400, copy_files=[tp], depth_first=True)
        if r.get("timeout") or r["error"]:
            raise vlib.Infra(f"trace validation did not run: {r['error']}\n" + r["out"][-2000:])
        return r["violated"] is None, r
    finally:
        shutil.rmtree(tmp, ignore_errors=True)


def mode_c(results):
    runs, owners = [], []
    skipped = 0
    protos = {"compact": 0, "ds": 0}
    for r in results:
        for tev in r.get("tev") or []:
            for lines in trace_lines(tev):
                if lines is None:
                    skipped += 1
                    continue
                runs.append(lines)
                owners.append((r, tev))
                protos[lines[0]["proto"]] += 1
    stats = {"replacements": len(runs), "events": sum(len(x) - 1 for x in runs), "not_replacements": skipped, "per_protocol": protos}
    rejected = []
    if runs:
        ok, t = validate(runs)
        stats["tlc_states"] = t["distinct"]
        # offenders are located by bisection (one TLC run per halving), at most three of them
        pending = [] if ok else [list(range(len(runs)))]
        while pending and len(rejected) < 3:
            idx = pending.pop()
            if len(idx) == 1:
                lines, (r, tev) = runs[idx[0]], owners[idx[0]]
                ok1, t1 = validate([lines])
                if not ok1:
                    r2 = dict(r)
                    r2["ok"] = False
                    r2["detail"] = ("file-system mutation order of a real reorganisation is not a behaviour of the replacement protocol "
                                    f"(Replace.tla / ReplaceDS.tla; matched a prefix of {t1['distinct'] - 1} events): " + json.dumps([e['ev'] for e in lines[1:]]))
                    rejected.append(r2)
                continue
            half = len(idx) // 2
            for part in (idx[half:], idx[:half]):
                okp, _ = validate([runs[i] for i in part])
                if not okp:
                    pending.append(part)
    return stats, rejected


def probes():
    """directed reproductions of open findings of this property: selftest/histories/c03-*.probe.json"""
    d = os.path.join(vlib.ROOT, "selftest", "histories")
    out = []
    if os.path.isdir(d):
        for fn in sorted(os.listdir(d)):
            if fn.startswith("c03-") and fn.endswith(".probe.json"):
                out.append((fn, json.load(open(os.path.join(d, fn)))))
    return out


def scheduler_probe():
    """directed reproduction of F-C03-2 (liveness): level compaction after reorganisations were paused and resumed"""
    vh = vlib.build_vh()
    p = vlib.run_vh(vh, ["probe-compaction-after-disable"], timeout=600)
    obj = None
    for line in p.stdout.splitlines():
        if line.startswith("{"):
            obj = json.loads(line)
    if p.returncode != 0 or obj is None:
        raise vlib.Infra("probe-compaction-after-disable failed: " + p.stderr[-1500:])
    a, b = obj["files_after_compaction"], obj["files_after_pause_resume_and_compaction"]
    if a != 1:
        raise vlib.Infra(f"level compaction does not merge two level-0 files on a fresh shard ({obj}): reorganisations cannot be exercised")
    if b == 2:
        if "F-C03-2" in {f["id"] for f in vlib.load_known(PROP)}:
            print(f"KNOWN-FINDING: property={PROP} F-C03-2 re-observed: after shard.DisableCompAndMerge / EnableCompAndMerge a level compaction "
                  f"no longer runs (the store's compaction scheduler stays closed): {obj}")
            return "reproduced"
        raise vlib.Infra(f"compaction scheduler dead after pause/resume ({obj}) and F-C03-2 is not listed as open")
    vlib.log(f"[c03] F-C03-2 no longer reproduces: {obj}")
    return "not reproduced"


def sumdict(results, key):
    tot = {}
    for r in results:
        for k, v in (r.get(key) or {}).items():
            tot[k] = tot.get(k, 0) + v
    return dict(sorted(tot.items()))


def run(tier, seed):
    t0 = time.time()
    tmp = vlib.scratch("c03cfg")
    pool = cf.ThreadPoolExecutor(4)
    try:
        # the replay waits for the generators only; the Mode A runs go on during the replay
        with cf.ThreadPoolExecutor(4) as gpool:
            gf = gpool.submit(gen, gpool, tier, seed)
            jobs = mode_a_jobs(pool, tier, tmp)
            tagged, g = gf.result()
        vlib.log(f"[c03] {len(tagged)} behaviours generated after {time.time()-t0:.0f}s")
        if not tagged:
            raise vlib.Infra("no behaviours with reorganisations generated")
        hists = [h for _, h in tagged]
        cases = [{"id": i, "seed": seed, "hist": h, "crash": True} for i, h in enumerate(hists)]
        open_ids = {f["id"] for f in vlib.load_known(PROP)}
        pcases = []
        for fn, p in probes():
            c = dict(p["case"])
            c["id"] = len(cases) + len(pcases)
            c["seed"] = p["case"].get("seed", 1)
            pcases.append((fn, p, c))
        sched = scheduler_probe()
        results = replay_cases(cases + [c for _, _, c in pcases])
        vlib.log(f"[c03] replay done after {time.time()-t0:.0f}s")
        a = mode_a_collect(jobs)
        vlib.log(f"[c03] Mode A done after {time.time()-t0:.0f}s")
    finally:
        pool.shutdown(wait=True, cancel_futures=True)
        shutil.rmtree(tmp, ignore_errors=True)
    infra = [r for r in results if r.get("infra")]
    if infra:
        raise vlib.Infra(f"harness infra error: {infra[0]}")
    if TOLERATED:
        print(f"KNOWN-FINDING: property={PROP} F-C04-1 the store process died {len(TOLERATED)} times at close with an unbalanced tsspFile reference count "
              f"(negative WaitGroup counter / close blocked in wg.Wait); those cases are not judged")
    byres = {r["id"]: r for r in results}
    probe_ids = {c["id"] for _, _, c in pcases}
    probe_stats = {"probe-compaction-after-disable": sched}
    bad = []
    for fn, p, c in pcases:
        r = byres.get(c["id"])
        if r is None:
            continue
        fid = p["finding"]
        if r.get("known") == fid and fid in open_ids:
            print(f"KNOWN-FINDING: property={PROP} {fid} re-observed by the directed reproduction {fn}: {r['detail'][:400]}")
            probe_stats[fn] = "reproduced"
        elif r["ok"] and not r.get("known"):
            vlib.log(f"[c03] directed reproduction {fn}: the real contents equal the specification ({fid} no longer reproduces)")
            probe_stats[fn] = "not reproduced (contents equal the specification)"
        else:
            r["ok"] = False
            bad.append(r)
            probe_stats[fn] = "other divergence"
    main = [r for r in results if r["id"] not in probe_ids]
    for r in main:
        if r.get("known"):    # behaviours of the generators are never attributed to a finding here
            r["ok"] = False
    bad += [r for r in main if not r["ok"]]
    cstats, rejected = mode_c(main)
    vlib.log(f"[c03] Mode C done after {time.time()-t0:.0f}s")
    bad += rejected
    byid = {c["id"]: c for c in cases + [c for _, _, c in pcases]}
    for r in bad[:5]:
        path = vlib.save_replay(PROP, {"case": byid[r["id"]], "result": {k: v for k, v in r.items() if k != "tev"}})
        print(f"VIOLATION property={PROP} replay={path}")
        vlib.log(r.get("detail", ""))
    tot = lambda k: sum(r.get(k, 0) for r in main)
    images, nested, reorgs = tot("images"), tot("nested"), tot("reorgs")
    kinds, methods, levels = sumdict(main, "kinds"), sumdict(main, "methods"), sumdict(main, "to_levels")
    groups, msts = sumdict(main, "groups"), sumdict(main, "msts")
    if not bad:
        # vacuity guards: every path the check claims must have been exercised by real reorganisations
        need = [(reorgs > 0, "no real reorganisation replaced any file"),
                (all(kinds.get(k, 0) > 0 for k in REORG), f"a kind of reorganisation was never exercised: {kinds}"),
                (methods.get("stream", 0) > 0 and methods.get("nonstream", 0) > 0, f"a compaction method was never exercised: {methods}"),
                (levels.get("L1", 0) > 0 and levels.get("L2", 0) > 0, f"no multi-level compaction sequence (level 0 -> 1 -> 2): {levels}"),
                (groups.get("2", 0) > 0 and groups.get("3", 0) > 0, f"a planner group size was never exercised: {groups}"),
                (msts.get("2", 0) > 0, f"no reorganisation touched two measurements at once: {msts}"),
                (tot("prewrite") > 0, "no crash image inside the writing of the temporary files"),
                (tot("torn") > 0, "no crash image with a half-written temporary file or log"),
                (nested > 0, "no second crash inside recovery"),
                (tot("ds_pre") > 0 and tot("ds_post") > 0, "down-sample crash images on one side of the log only")]
        for ok, msg in need:
            if not ok:
                raise vlib.Infra("the run is vacuous: " + msg)
    cov = {
        "states": a["distinct"], "transitions": a["generated"],
        "traces_validated_against_impl": len(main),
        "samples": [hists[0]],
        "evaluations": images + nested,
        "distinct_nontrivial": images,
        "rule": "one evaluation = a crash image frozen after (or, for a half-written file, inside) one file-system mutation of a real "
                "compaction / merge / down-sample, or inside the recovery of such an image, restored, re-opened and fully read; "
                "distinct_nontrivial = first-level images",
        "behaviours": len(hists), "real_reorganisations": reorgs, "crash_images": images,
        "nested_recovery_images": nested,
        "images_while_writing_temporary_files": tot("prewrite"), "images_with_half_written_file": tot("torn"),
        "downsample_images_expect_raw": tot("ds_pre"), "downsample_images_expect_aggregate": tot("ds_post"),
        "reorganisations_per_kind": kinds, "compactions_per_method": methods, "compactions_per_output_level": levels,
        "level_compactions_per_group_size": groups, "replacements_per_measurements_touched": msts,
        "reads_compared": tot("reads"), "skipped_schedule_steps": tot("skips"), "shape_drift_steps": tot("drift"),
        "index_inconclusive": tot("index_inconclusive"),
        "trace_validation": cstats,
        "directed_reproductions": probe_stats,
        "tlc": {"exhaustive": a, "generator": g},
        "exhaustive": False,
    }
    vlib.write_evidence(PROP, tier, seed, "model_checking", cov, time.time() - t0, len(bad), [
        "process-kill semantics (the directory tree at the crash instant is the image; a write may be cut short)",
        "plans are those the real planner picks on the prepared layouts (group size 2 or 3 through LeveLMinGroupFiles) plus forced full compaction / merge",
        "max-rows-per-segment in {default, 2, 3, 5}; a down-sample of sparse columns only with single-segment chunks (open finding F-C03-3)",
        "down-sample: level 1 of a shard without out-of-order files whose files share no window per series; aggregates first/last/min/max/count",
        "the compaction scheduler is kept alive by switching reorganisations with the store's enable flags (open finding F-C03-2)",
        "sequential histories: the Sequencer is loaded right after every open, as the index flush and the Sequencer reload after a write are waited for (open finding F-C02-3)",
    ])
    return 1 if bad else 0


def replay(path, seed):
    obj = json.load(open(path))
    res = replay_cases([obj["case"]])
    r = res[0]
    _, rej = mode_c(res)
    if rej:
        r = rej[0]
    if not r["ok"] or r.get("known"):
        print(f"VIOLATION property={PROP} replay={path}")
        vlib.log(r["detail"])
        return 1
    print("replay passes")
    return 0
