"""C15 - meta replicas converge on the same log, through snapshot and restore too.
Mode A: TLC exhaustively checks specs/MetaCatalog.tla (design, Dev = {}) with the Snapshot / Persist /
Restore actions for SnapshotPointInTime (what Persist writes is the catalogue at Snapshot time, applies
allowed in between) and SnapshotComplete (restore + remaining commands = the node that applied everything).
Mode B: TLC-generated behaviours are replayed into real meta.Data instances fed the same protobuf log:
reference, replica that goes through Clone -> MarshalBinary -> UnmarshalBinary at the specification's
positions, replica whose maps are re-created in shuffled order before every command (and the real storeFSM
when the tree carries the verif hook); returns and canonical dumps must be equal after every step.
See props/metacat_common.py and harness/cmd/vh/metacat.go."""
import metacat_common as mc

PROP = "C15"

ASSUMPTIONS = [
    "TLC bounds as in the cfg files named under coverage.tlc",
    "commands modelled: CreateDataNode, CreateSqlNode, CreateDbPtView, UpdateReplication, Create/MarkDelete/DropDatabase, "
    "Create/Update/MarkDelete/Drop/SetDefault RetentionPolicy, Create/MarkDelete/Drop Measurement, Create/Delete ShardGroup, "
    "PruneGroups(shard), CreateUser, DropUser, SetPrivilege; the other registered command types are not replayed",
    "real meta.Data driven in process through the exported apply functions of apply_func_base.go (the three handlers that live in "
    "store_fsm.go are mirrored in the harness; the real storeFSM is driven too when the tree carries the verif hook VerifFSM)",
    "dumps compare every field of the catalogue by reflection except raft position and incremental-sync bookkeeping; deletion "
    "stamps as set/unset; nil and empty containers are equal",
    "at most one snapshot per behaviour; one partition per data node; HASH sharding; a single sql node",
]


def run(tier, seed):
    cfgs = ["MetaCatalog.snap.quick.cfg"] if tier == "quick" else ["MetaCatalog.snap.thorough.cfg"]
    return mc.run_check(PROP, tier, seed, cfgs, ASSUMPTIONS)


def replay(path, seed):
    return mc.replay_file(PROP, path, seed)


def selftest(seed):
    return mc.selftest(PROP, mc.SEEDS_C15, "MetaCatalog.snap.quick.cfg")
