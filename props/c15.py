"""C15 - meta replicas converge on the same log, through snapshot and restore too.
Mode A: TLC exhaustively checks specs/MetaCatalog.tla (design, Dev = {}) with the Snapshot / Persist /
Restore actions for SnapshotPointInTime (what Persist writes is the catalogue at Snapshot time, applies
allowed in between), SnapshotKeepsVersions (the per-name version counters MstVersions are in the image, also
those whose measurement was dropped) and SnapshotComplete (restore + remaining commands = the node that
applied everything; up to two snapshot rounds per behaviour), and - the code-level face of determinism - for
ShardTypeUniform (every entry of a policy's measurement map, marked deleted or not, has one sharding type),
WitnessIndependent and TemplateIndependent (whichever map entry validMeasurementShardType / CreateShardGroup
take first, the command answers and does the same; HASH template = one shard per partition of the cluster,
RANGE template = as many as the last group, several partitions per node).
Mode B: TLC-generated behaviours (BFS paths, the systematic snapshot families = every path of measurement
life-cycle commands with Snapshot / Persist / Restore at every position, simulation) are replayed into real
meta.Data instances fed the same protobuf log: reference, replica that goes through Clone -> MarshalBinary ->
UnmarshalBinary at the specification's positions, replica whose maps are re-created in shuffled order before
every command, three fresh instances that just apply the log (Go randomises every map iteration) and the real
storeFSM when the tree carries the verif hook; returns and canonical dumps must be equal after every step.
See props/metacat_common.py and harness/cmd/vh/metacat.go."""
import metacat_common as mc

PROP = "C15"

ASSUMPTIONS = [
    "TLC bounds as in the cfg files named under coverage.tlc",
    "commands modelled: CreateDataNode, CreateSqlNode, CreateDbPtView, UpdateReplication, Create/MarkDelete/DropDatabase, "
    "Create/Update/MarkDelete/Drop/SetDefault RetentionPolicy, Create/MarkDelete/Drop Measurement, Create/Delete ShardGroup, "
    "PruneGroups(shard), CreateUser, DropUser, SetPrivilege; 15 further registered types are replayed as Opaque steps (the "
    "specification only says that the modelled state does not change; arguments drawn by the harness from the live catalogue; judged "
    "instance against instance): Create/DropSubscription, Create/DropContinuousQuery, ContinuousQueryReport, NotifyCQLeaseChanged, "
    "UpdateUser, RegisterQueryIDOffset, UpdateShardInfoTier, UpdateIndexInfoTier, MarkTakeover, MarkBalancer, UpdatePtVersion, "
    "UpdateSchema (single field, only with schema-clean off), UpdateShardDownSampleInfo; the remaining 31 types are not replayed",
    "real meta.Data driven in process through the exported apply functions of apply_func_base.go (the three handlers that live in "
    "store_fsm.go are mirrored in the harness; the real storeFSM is driven too when the tree carries the verif hook VerifFSM)",
    "dumps compare every field of the catalogue by reflection except raft position and incremental-sync bookkeeping; deletion "
    "stamps as set/unset; nil and empty containers are equal",
    "at most two snapshot rounds per behaviour; one or two partitions per data node (replication only with one); HASH and RANGE "
    "sharding without re-sharding (shard bounds stay empty); a single sql node",
]


def run(tier, seed):
    cfgs = ["MetaCatalog.snap.quick.cfg", "MetaCatalog.life.quick.cfg"] if tier == "quick" else \
           ["MetaCatalog.snap.thorough.cfg", "MetaCatalog.life.thorough.cfg"]
    return mc.run_check(PROP, tier, seed, cfgs, ASSUMPTIONS)


def replay(path, seed):
    return mc.replay_file(PROP, path, seed)


def selftest(seed):
    rc = mc.selftest(PROP, mc.SEEDS_C15, "MetaCatalog.snap.quick.cfg")
    return mc.selftest(PROP, mc.SEEDS_C15_LIFE, "MetaCatalog.life.quick.cfg") or rc
