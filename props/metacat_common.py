"""Shared machinery of C15 / C16 (specs/MetaCatalog.tla, harness sub-command replay-meta).

Mode A: TLC exhaustively checks the design model (Dev = {}) of the catalogue commands for the property's
invariants. Mode B: TLC-generated behaviours (every BFS path of a tiny universe + the systematic snapshot
families - every path of measurement life-cycle commands with Snapshot / Persist / Restore at every position,
after a set-up prefix - + two seeded simulation profiles) carry, per step, the design's expected return class and state and - for the deviations of the
OPEN entries of known_findings.json (ImplDev) - the as-implemented prediction; they are replayed into real
meta.Data instances (reference, snapshot/restore replica, shuffled-map replica, fresh instances fed the same
log, and the real storeFSM when the verif hook is present). The generated behaviours are cached (keyed by specification, configuration,
tier, seed and ImplDev) so that the two checks share them."""
import hashlib, json, os, re, time
from concurrent.futures import ThreadPoolExecutor
import vlib

SPEC = "MetaCatalogMC"
# Up to nine TLC JVMs run side by side (two exhaustive configurations + seven generators); the JVM's default
# maximum heap is a quarter of the machine's memory EACH and the parallel collector lets it fill up, so on a
# shared machine the kernel's OOM killer ends one of them (seen twice: "TLC error ...: None", exit 2). None of
# the configurations needs more than a fraction of this bound.
os.environ.setdefault("JAVA_TOOL_OPTIONS", "-Xmx3g")
CFG = os.path.join(vlib.SPECS, "cfg")

# as-implemented deviation of the specification -> what the harness reports -> property clause
# (harness name = spec name except for the snapshot side of the far-past start)
REPORTED_PROPERTY = {
    "groups_not_clipped": "C16", "drop_rp_keeps_default": "C16", "expand_ptview_nil_db": "C16", "far_past_start_wraps": "C15",
    "clone_drops_mst_id": "C15", "clone_shares_replica_groups": "C15", "clone_shares_sql_nodes": "C15",
    "snapshot_wraps_far_past_start": "C15",
    "shardtype_check_skips_same_name": "C15", "template_by_map_order": "C15", "cq_zero_lastrun_wraps": "C15",
    "clone_shares_subscriptions": "C15",
}

# mutation seeds of the specification (Dev = {x} must violate the invariant); used by selftest()
SEEDS_C16 = {
    "forget_maxshardid": "IdsUnique", "forget_maxsgid": "IdsUnique", "forget_maxmstid": "IdsUnique",
    "shard_wrong_index": "RefsValid",
    "createdb_half_applies": "FailedCommandIsNoop",
    "groups_not_clipped": "GroupsDisjointAlignedSorted",
    "drop_rp_keeps_default": "DefaultPolicyExists", "expand_ptview_nil_db": "NoPanic",
}
# ... checked on the measurement life-cycle configuration (MetaCatalog.life.quick.cfg)
# ... needs eight steps (create, delete, prune the group, create again): one partition, depth 9
SEEDS_C16_DEEP = {
    "prune_resets_counter": "IdsNeverReused",
}
SEEDS_C16_LIFE = {
    "version_from_entries": "VersionsNeverReused",
}
SEEDS_C15 = {
    "clone_shares_replica_groups": ("SnapshotPointInTime", "SnapshotComplete"),
    "clone_shares_sql_nodes": ("SnapshotPointInTime", "SnapshotComplete"),
    "snapshot_omits_maxshardid": ("SnapshotPointInTime", "SnapshotComplete"),
    "snapshot_omits_privileges": ("SnapshotPointInTime", "SnapshotComplete"),
}
# ... checked on the measurement life-cycle configuration (MetaCatalog.life.quick.cfg)
SEEDS_C15_LIFE = {
    "clone_drops_mst_id": ("SnapshotPointInTime", "SnapshotComplete"),      # needs a second measurement (id 1)
    "shardtype_check_skips_marked": ("ShardTypeUniform", "WitnessIndependent", "TemplateIndependent"),
    "shardtype_check_skips_same_name": ("ShardTypeUniform", "WitnessIndependent", "TemplateIndependent"),
    "snapshot_drops_orphan_versions": ("SnapshotPointInTime", "SnapshotKeepsVersions", "SnapshotComplete"),
}


def open_findings():
    return vlib.load_known("C15") + vlib.load_known("C16")


def impl_devs():
    """Deviations of the specification that model the open findings."""
    devs = set()
    for f in open_findings():
        for d in f.get("spec_deviations", []):
            devs.add(d)
    return sorted(devs)


def finding_of(reported, prop):
    """Open finding of the property that lists this harness-reported deviation."""
    for f in vlib.load_known(prop):
        if reported in f.get("reported_as", []):
            return f["id"]
    return None


def tla_set(names):
    return "{" + ", ".join('"%s"' % n for n in names) + "}"


def derive_cfg(base, **kw):
    """Copy of specs/cfg/<base> with some constants replaced; returns the absolute path of the copy."""
    s = open(os.path.join(CFG, base)).read()
    for k, v in kw.items():
        if k == "invariants":
            s = re.sub(r"INVARIANTS.*?(?=\nCHECK_DEADLOCK)", "INVARIANTS " + " ".join(v), s, flags=re.S)
            continue
        if k == "add_ops":
            s, n = re.subn(r'(  Ops = \{.*?)\}', lambda m: m.group(1) + ", " + ", ".join('"%s"' % o for o in v) + "}", s, count=1, flags=re.S)
            assert n == 1
            continue
        pat = r"(?ms)^  %s (=|<-) .*?(?=^  [A-Za-z]+ (=|<-) |^VIEW|^INVARIANTS)" % k
        s, n = re.subn(pat, "  %s = %s\n" % (k, v), s, count=1)
        if n != 1:
            raise vlib.Infra(f"cannot set {k} in {base}")
    os.makedirs(vlib.WORK, exist_ok=True)
    h = hashlib.sha1(s.encode()).hexdigest()[:12]
    p = os.path.join(vlib.WORK, f"metacat-{os.getpid()}-{h}-{base}")
    open(p, "w").write(s)
    return p


def run_exhaustive(cfgs, workers_each=None):
    """Mode A: all of them must pass. Returns per-cfg statistics."""
    out = {}

    def one(cfg):
        return cfg, vlib.run_tlc(SPEC, cfg, timeout=2700, workers=workers_each or max(2, vlib.NCPU // max(1, len(cfgs))))

    with ThreadPoolExecutor(len(cfgs)) as ex:
        for cfg, r in ex.map(one, cfgs):
            vlib.tlc_must_pass(r, cfg)
            out[cfg] = {k: r[k] for k in ("generated", "distinct", "depth", "wall_s")}
    return out


def _spec_hash(cfg_paths):
    h = hashlib.sha1()
    for p in [os.path.join(vlib.SPECS, "MetaCatalog.tla"), os.path.join(vlib.SPECS, "MetaCatalogMC.tla")] + list(cfg_paths):
        h.update(open(p, "rb").read())
    return h.hexdigest()


def gen_behaviours(tier, seed):
    """Mode B generators. Returns (behaviours, stats); behaviours = list of (source, hist)."""
    devs = impl_devs()
    over = dict(ImplDev=tla_set(devs))
    cfg_bfs = derive_cfg("MetaCatalog.bfs.export.cfg", **over)
    cfg_sim = derive_cfg("MetaCatalog.sim.cfg", **over)
    cfg_grp = derive_cfg("MetaCatalog.sim.groups.cfg", **over)
    # systematic snapshot families: deeper in the thorough tier
    deep = {} if tier == "quick" else {"Depth": "13"}
    deep2 = {} if tier == "quick" else {"Depth": "10"}
    cfg_l1 = derive_cfg("MetaCatalog.bfs.life1.cfg", **over, **deep)
    cfg_l2 = derive_cfg("MetaCatalog.bfs.life2.cfg", **over, **deep2)
    try:
        nsim = 60 if tier == "quick" else 1500
        ngrp = 60 if tier == "quick" else 1500
        key = hashlib.sha1((_spec_hash([cfg_bfs, cfg_sim, cfg_grp, cfg_l1, cfg_l2]) + f"|{tier}|{seed}|{devs}|{nsim}|{ngrp}").encode()).hexdigest()[:16]
        cdir = os.path.join(vlib.WORK, "metacat-cache")
        os.makedirs(cdir, exist_ok=True)
        cpath = os.path.join(cdir, key + ".json")
        if os.path.exists(cpath):
            try:
                obj = json.load(open(cpath))
                vlib.log(f"[metacat] behaviours of {cpath} reused")
                return [tuple(x) for x in obj["behaviours"]], obj["stats"]
            except Exception:
                pass
        jobs = {
            "bfs": lambda: vlib.run_tlc(SPEC, cfg_bfs, workers=6, timeout=1500),
            "life1": lambda: vlib.run_tlc(SPEC, cfg_l1, workers=4, timeout=1500),
            "life2": lambda: vlib.run_tlc(SPEC, cfg_l2, workers=4, timeout=1500),
            "sim": lambda: vlib.run_tlc(SPEC, cfg_sim, simulate=nsim, depth=30, seed=seed, timeout=2400),
            "sim2": lambda: vlib.run_tlc(SPEC, cfg_sim, simulate=nsim, depth=30, seed=seed + 7919, timeout=2400),
            "groups": lambda: vlib.run_tlc(SPEC, cfg_grp, simulate=ngrp, depth=30, seed=seed, timeout=2400),
            "groups2": lambda: vlib.run_tlc(SPEC, cfg_grp, simulate=ngrp, depth=30, seed=seed + 104729, timeout=2400),
        }
        res = {}
        with ThreadPoolExecutor(len(jobs)) as ex:
            futs = {k: ex.submit(f) for k, f in jobs.items()}
            for k, f in futs.items():
                res[k] = f.result()
                vlib.tlc_must_pass(res[k], k)
        import random
        rnd = random.Random(seed)
        bfs = res["bfs"]["traces"]
        nb = len(bfs)
        cap = 1500 if tier == "quick" else 15000
        if len(bfs) > cap:      # seeded sample
            bfs = rnd.sample(bfs, cap)
        behaviours = [("bfs", h) for h in bfs]
        stats = {"impl_devs": devs, "bfs_export": {"generated": res["bfs"]["generated"], "traces": nb, "replayed": len(bfs)}}
        for k in ("life1", "life2"):     # the systematic families are replayed in full in both tiers
            tr = res[k]["traces"]
            capk = 12000 if tier == "quick" else 60000
            nk = len(tr)
            if nk > capk:
                tr = rnd.sample(tr, capk)
            behaviours += [(k, h) for h in tr]
            stats[k] = {"generated": res[k]["generated"], "traces": nk, "replayed": len(tr), "wall_s": round(res[k]["wall_s"], 1)}
        for k in ("sim", "sim2", "groups", "groups2"):
            tr = res[k]["traces"]
            capk = 450 if tier == "quick" else 6000
            if len(tr) > capk:
                tr = rnd.sample(tr, capk)
            behaviours += [(k, h) for h in tr]
            stats[k] = {"generated": res[k]["generated"], "traces": len(res[k]["traces"]), "replayed": len(tr), "wall_s": round(res[k]["wall_s"], 1)}
        tmp = cpath + f".{os.getpid()}.tmp"
        json.dump({"behaviours": behaviours, "stats": stats}, open(tmp, "w"))
        os.replace(tmp, cpath)
        # keep the cache small
        files = sorted((os.path.getmtime(os.path.join(cdir, f)), f) for f in os.listdir(cdir) if f.endswith(".json"))
        for _, f in files[:-4]:
            os.unlink(os.path.join(cdir, f))
        return behaviours, stats
    finally:
        for p in (cfg_bfs, cfg_sim, cfg_grp, cfg_l1, cfg_l2):
            try:
                os.unlink(p)
            except OSError:
                pass


def replay_cases(cases):
    vh = vlib.build_vh()
    results, errs = vlib.run_vh_parallel(vh, ["replay-meta"], cases)
    if errs:
        raise vlib.Infra(f"harness process failed: {errs[0]}")
    if len(results) != len(cases):
        raise vlib.Infra(f"harness returned {len(results)} results for {len(cases)} cases")
    return results


def run_check(prop, tier, seed, exh_cfgs, assumptions):
    t0 = time.time()
    with ThreadPoolExecutor(2) as ex:       # Mode A and the Mode B generators side by side
        fa = ex.submit(run_exhaustive, exh_cfgs, max(2, vlib.NCPU // (2 * len(exh_cfgs))))
        fb = ex.submit(gen_behaviours, tier, seed)
        exh = fa.result()
        behaviours, gstats = fb.result()
    cases = [{"id": i, "seed": seed, "hist": h} for i, (_, h) in enumerate(behaviours)]
    results = replay_cases(cases)
    infra = [r for r in results if r.get("infra")]
    if infra:
        raise vlib.Infra(f"harness infra error: {infra[0]}")
    byid = {c["id"]: c for c in cases}
    # violations of this property: its own clause, or a conformance failure (nothing can be judged then)
    bad = [r for r in results if not r["ok"] and r.get("tag") in (prop, "spec")]
    other = [r for r in results if not r["ok"] and r.get("tag") not in (prop, "spec")]
    # known findings re-observed
    seen = {}
    for r in results:
        for dev, detail in (r.get("devs") or {}).items():
            if REPORTED_PROPERTY.get(dev) != prop:
                continue
            fid = finding_of(dev, prop)
            if fid is None:             # a deviation that no open finding of this property lists
                r = dict(r, ok=False, tag=prop, detail=f"deviation {dev} observed but no open finding lists it: {detail}")
                bad.append(r)
                continue
            e = seen.setdefault(fid, {"n": 0, "devs": set(), "ex": detail})
            e["n"] += 1
            e["devs"].add(dev)
    for fid in sorted(seen):
        e = seen[fid]
        print(f"KNOWN-FINDING: property={prop} {fid} ({', '.join(sorted(e['devs']))}) re-observed in {e['n']} behaviours, e.g. {e['ex'][:400]}")
    for r in bad[:5]:
        path = vlib.save_replay(prop, {"case": byid[r["id"]], "result": r})
        print(f"VIOLATION property={prop} replay={path}")
        vlib.log(f"[{r.get('tag')}] step {r.get('step')} {r.get('action')}: {r.get('detail')}")
    if other:
        vlib.log(f"[metacat] {len(other)} behaviours violate the other property's clause (reported by its own check), e.g. {other[0].get('detail', '')[:300]}")
    distinct = len({json.dumps(h, sort_keys=True) for _, h in behaviours})
    states = sum(v["distinct"] for v in exh.values())
    trans = sum(v["generated"] for v in exh.values())
    src = {}
    for s, _ in behaviours:
        src[s] = src.get(s, 0) + 1
    sample = [[{"a": e["a"], "args": e["args"], "exp": e["exp"]} for e in h] for _, h in (behaviours[:1] + behaviours[-1:])]
    cov = {
        "states": states, "transitions": trans,
        "traces_validated_against_impl": len(results),
        "samples": sample,
        "exhaustive": True,
        "evaluations": sum(r["cmds"] for r in results), "distinct_nontrivial": distinct,
        "rule": "behaviours of MetaCatalog.tla (BFS paths of the tiny export config + systematic snapshot families + two seeded simulation profiles); "
                "evaluations = commands applied to the real catalogue and judged (return class, projected state, invariants, "
                "replica dumps); distinct = distinct behaviours, every one applies >= 1 command",
        "tlc": {"exhaustive": exh, "generators": gstats},
        "behaviours_by_source": src,
        "steps_replayed": sum(r["steps"] for r in results),
        "failed_commands_checked_noop": sum(r["failed"] for r in results),
        "invariant_evaluations_on_real_catalogue": sum(r["inv_evals"] for r in results),
        "dump_comparisons": sum(r["dump_cmps"] for r in results),
        "behaviours_with_restore": sum(1 for r in results if r["restored"]),
        "storefsm_level": sum(1 for r in results if r["fsm"]),
        "lineage": {k: sum(1 for r in results if r["lineage"] == k) for k in ("both", "design", "impl")},
        "stopped_at_predicted_panic": sum(1 for r in results if r.get("stopped")),
        "known_findings": {k: {"behaviours": v["n"], "deviations": sorted(v["devs"])} for k, v in seen.items()},
    }
    vlib.write_evidence(prop, tier, seed, "model_checking", cov, time.time() - t0, len(bad), assumptions)
    return 1 if bad else 0


def replay_file(prop, path, seed):
    obj = json.load(open(path))
    r = replay_cases([obj["case"]])[0]
    if not r["ok"] and r.get("tag") in (prop, "spec"):
        print(f"VIOLATION property={prop} replay={path}")
        vlib.log(f"[{r.get('tag')}] step {r.get('step')} {r.get('action')}: {r.get('detail')}")
        return 1
    for dev, detail in (r.get("devs") or {}).items():
        if REPORTED_PROPERTY.get(dev) == prop:
            print(f"KNOWN-FINDING: property={prop} {finding_of(dev, prop)} ({dev}) {detail[:400]}")
    print("replay passes")
    return 0


def selftest(prop, seeds, base_cfg, extra_ops=(), **over):
    """Every mutation seed / as-implemented deviation must make TLC produce a counterexample of the named invariant."""
    rc = 0

    def one(item):
        dev, inv = item
        cfg = derive_cfg(base_cfg, Dev=tla_set([dev]), **({"add_ops": list(extra_ops)} if extra_ops else {}), **over)
        try:
            return dev, inv, vlib.run_tlc(SPEC, cfg, timeout=1500, workers=4)
        finally:
            os.unlink(cfg)

    with ThreadPoolExecutor(4) as ex:
        for dev, inv, r in ex.map(one, sorted(seeds.items())):
            want = inv if isinstance(inv, tuple) else (inv,)
            ok = r["violated"] in want
            print(f"selftest {prop}: Dev={{{dev}}} -> TLC violated={r['violated']} (expected {'/'.join(want)}) {'ok' if ok else 'MISSED'}")
            if not ok:
                rc = 1
    return rc
