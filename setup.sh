#!/bin/sh
# Offline setup: generate the harness go.mod from /repo/go.mod and build the harness (warms the Go build cache).
set -e
cd "$(dirname "$0")"
export GOFLAGS=-mod=mod GOPROXY=off
unset GOSUMDB || true
python3 tools/genmod.py
mkdir -p .bin .work evidence
(cd harness && go build -tags verif -o ../.bin/vh ./cmd/vh)
echo "setup ok"
